#!/usr/bin/env python3
"""Regenerates MANIFEST.json from props.json (claimed properties) and the fixed list of hooks."""
import json, subprocess
props = json.load(open('/verif/props.json'))
allp = [json.loads(l)['id'] for l in open('/verif/properties.jsonl')]
NA = {
 "C20": "outcome of CREATE VIRTUAL TABLE ... USING s3db(args) is a pure function of the argument list: parsing happens before any storage request and involves no schedule, clock, fault or second party, so deterministic simulation has no dimension to explore (DESIGN.md 6/C20)",
}
hook_commits = subprocess.check_output(['git','-C','/repo','log','--format=%h %s','--grep=^verif hook']).decode().strip().split('\n')
checks = []
for pid in allp:
    if pid not in props: continue
    m = props[pid]
    checks.append({
        "property_id": pid,
        "quick_cmd": f"./bin/verif check {pid} --tier quick",
        "thorough_cmd": f"./bin/verif check {pid} --tier thorough",
        "evidence_file": f"/verif/evidence/{pid}.json",
        "replay_cmd_template": "./bin/verif replay {path}",
        "engine": "sim",
        "level_claimed": {"category": m["level"], "text": m["text"], "design_ref": "DESIGN.md " + m.get("design_ref","")},
        "level_note": m["note"],
        "technique": m["technique"],
    })
na = [{"property_id": p, "reason": NA.get(p, "no check built yet for this property in this technique family; not claimed")} for p in allp if p not in props]
man = {
 "version": 1,
 "setup_cmd": "./build.sh",
 "hooks": {
  "guard": "verif",
  "enable": "go build tag: checks run `go1.26.8 test -c -tags verif` of /verif/sim against /repo's working tree (replace github.com/jrhy/s3db => /repo)",
  "baseline_off_cmd": "cd /repo && go test -mod=mod -vet=off -count=1 -timeout 25m ./...",
  "source_commits": [c.split()[0] for c in hook_commits if c],
  "add_only": False,
 },
 "engines": [{"name": "sim", "path": "/verif/sim", "serves_properties": [c["property_id"] for c in checks],
   "kind_free_text": "deterministic simulator: one testing/synctest bubble per run, in-process object store that parks every request, seeded scheduler/fault plan, JSON replay programs, delta-debugging shrinker; runner in /verif/cmd/verif"}],
 "checks": checks,
 "not_applicable": na,
 "notes": "Exit codes: 0 held, 1 violation (VIOLATION line), 2 machinery/build/coverage trouble. VERIF_SEED selects the base seed (default 1). known_findings.json lists fixed defects (witness replays run first in every check of that property and must pass) and open findings (KNOWN-FINDING lines).",
}
json.dump(man, open('/verif/MANIFEST.json','w'), indent=1)
print("claimed", len(checks), "not_applicable", len(na))
