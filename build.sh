#!/bin/sh
# Builds the runner (stdlib only) and the simulator test binary, offline.
set -e
cd "$(dirname "$0")"
export GOFLAGS=-mod=mod GOPROXY=off GOSUMDB=off GOTOOLCHAIN=local
GO=go1.26.8
command -v $GO >/dev/null 2>&1 || GO=/opt/veriftools/go1.26.8/bin/go
mkdir -p bin .build
(cd cmd/verif && $GO build -o ../../bin/verif .)
./bin/verif build
