#!/usr/bin/env python3
"""prints the markdown table of DESIGN.md section 9 from evidence/*.json"""
import json, glob
print("| property | tier | runs evaluated | distinct non-trivial | oracle checks | faults fired | wall s |")
print("|---|---|---|---|---|---|---|")
tot = 0; wall = 0
for f in sorted(glob.glob('/verif/evidence/C*.json')):
    e = json.load(open(f)); c = e['coverage']
    ff = ", ".join("%s %d" % (k, v) for k, v in sorted((c.get('faults_fired') or {}).items())) or "-"
    print("| %s | %s | %d | %d | %d | %s | %d |" % (e['property_id'], e['tier'], c['evaluations'], c['distinct_nontrivial'], c['oracle_checks'], ff, round(e['wall_s'])))
    tot += c['evaluations']; wall += e['wall_s']
print("\ntotal runs %d, wall %.0f min" % (tot, wall / 60))
