#!/bin/bash
# wave.sh <id> <prop>...: confirm a sub-agent's change in its scratch worktree (tools/verify_mut.sh), then run the quick checks against it (tools/mutcheck.sh)
id=$1; shift
d=/tmp/mut/$id
log=/tmp/mut/$id.wave.log
{
  if grep -q CONFIRMED /tmp/mut/$id.verify.log 2>/dev/null; then echo "verify: CONFIRMED (earlier)"; else /verif/tools/verify_mut.sh $d > /tmp/mut/$id.verify.log 2>&1; tail -4 /tmp/mut/$id.verify.log; fi
  if grep -q CONFIRMED /tmp/mut/$id.verify.log; then /verif/tools/mutcheck.sh $d/MUTATION.diff q "$@" 2>&1 | cut -c1-420; fi
} > $log 2>&1
echo "done $id" >> $log
