#!/bin/bash
# runs every claimed quick check on the current /repo tree and prints one line per property
cd /verif
for p in $(python3 -c "import json; print(' '.join(sorted(json.load(open('props.json')))))"); do
  out=$(./bin/verif check $p 2>&1); rc=$?
  echo "$p exit=$rc known=$(echo "$out" | grep -c '^KNOWN-FINDING') viol=$(echo "$out" | grep -c '^VIOLATION') :: $(echo "$out" | tail -1)"
done
