#!/usr/bin/env python3
"""Determinism self-test: the same seeds in separate worker processes at GOMAXPROCS 1/4/16 must give the same
event-log hash, step count and violation class. usage: determinism.py [--seeds N] [--rounds R] [props...]"""
import json, os, subprocess, sys, tempfile, concurrent.futures
root = os.path.dirname(os.path.dirname(os.path.abspath(__file__)))
props = json.load(open(os.path.join(root, 'props.json')))
args = sys.argv[1:]
seeds, rounds = 40, 2
while args and args[0].startswith('--'):
    if args[0] == '--seeds': seeds = int(args[1]); args = args[2:]
    elif args[0] == '--rounds': rounds = int(args[1]); args = args[2:]
want = args or sorted(props)
subprocess.check_call([os.path.join(root, 'bin', 'verif'), 'build', '--race'], stdout=subprocess.DEVNULL)  # never test a stale binary
def run(prop, procs, tag):
    binp = os.path.join(root, '.build', 'sim.race.test' if props[prop].get('race') else 'sim.test')
    out = tempfile.mktemp(prefix='det-', dir=os.path.join(root, '.build'))
    env = dict(os.environ, VERIF_MODE='gen', VERIF_PROP=prop, VERIF_TIER='quick', VERIF_SEED='7', VERIF_FIRST='0', VERIF_STRIDE='1',
               VERIF_COUNT=str(seeds), VERIF_OUT=out, GOMAXPROCS=str(procs), GORACE='halt_on_error=1')
    first = 0
    res = {}
    for attempt in range(seeds + 2):
        env['VERIF_FIRST'] = str(first)
        subprocess.run([binp, '-test.run', '^TestWorker$', '-test.timeout', '0', '-test.count', '1'], cwd=os.path.join(root, 'sim'), env=env,
                       stdout=subprocess.DEVNULL, stderr=subprocess.DEVNULL)
        restart = None
        for l in open(out):
            r = json.loads(l)
            if 'restart_from' in r: restart = r['restart_from']
            elif 'seed' in r: res[r['seed']] = (r['log_hash'], r['steps'], r['events'], (r.get('violation') or {}).get('class'))
        open(out, 'w').close()
        if restart is None: break
        first = restart
    os.remove(out)
    return (prop, procs, tag, res)
jobs = [(p, g, t) for p in want for g in (1, 4, 16) for t in range(rounds)]
bad = 0
with concurrent.futures.ThreadPoolExecutor(max_workers=8) as ex:
    results = list(ex.map(lambda j: run(*j), jobs))
for p in want:
    rs = [r for r in results if r[0] == p]
    ref = rs[0][3]
    diverged = []
    for (_, g, t, res) in rs[1:]:
        for s, v in ref.items():
            if res.get(s) != v: diverged.append((s, g, t, v, res.get(s)))
    print(f"{p}: {len(ref)} seeds x {len(rs)} processes (GOMAXPROCS 1/4/16 x {rounds}): {'IDENTICAL' if not diverged else 'DIVERGED ' + str(diverged[:3])}")
    bad += bool(diverged)
sys.exit(1 if bad else 0)
