#!/bin/bash
# runs every claimed thorough check on the current /repo tree; one summary line per property, full output in .build/thorough/<id>.log
cd /verif
mkdir -p .build/thorough
props=${@:-$(python3 -c "import json; print(' '.join(sorted(json.load(open('props.json')))))")}
for p in $props; do
  ./bin/verif check $p --tier thorough > .build/thorough/$p.log 2>&1; rc=$?
  echo "$p exit=$rc known=$(grep -c '^KNOWN-FINDING' .build/thorough/$p.log) viol=$(grep -c '^VIOLATION' .build/thorough/$p.log) :: $(tail -1 .build/thorough/$p.log)"
done
