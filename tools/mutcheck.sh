#!/bin/bash
# mutcheck.sh <patch> <runs> <prop>...: apply a seeded change to /repo, run the quick checks, undo.
patch=$1; runs=$2; shift 2
cd /repo || exit 2
git diff --quiet || { echo "/repo has uncommitted changes"; exit 2; }
git apply "$patch" || { echo "patch does not apply"; exit 2; }
cd /verif
for p in "$@"; do
  if [ "$runs" = "q" ]; then out=$(./bin/verif check $p 2>&1); else out=$(./bin/verif check $p --runs $runs 2>&1); fi
  rc=$?
  echo "== $p exit=$rc: $(echo "$out" | grep -c '^VIOLATION') violation line(s); $(echo "$out" | grep -v KNOWN-FINDING | grep -m1 -B1 '^VIOLATION' | head -1 | cut -c1-300)"
  echo "$out" | tail -1
done
git -C /repo checkout -- . ; git -C /repo status --short | head -3
