#!/usr/bin/env python3
"""archive_mut.py <srcdir> <seeded-id> <property> <patchfile> '<needs>' '<detected_by>' ['<notes>']"""
import sys, os, shutil, json, subprocess, glob
src, sid, prop, patch, needs, detected = sys.argv[1:7]
notes = sys.argv[7] if len(sys.argv) > 7 else ""
dst = f"/verif/seeded/{sid}"
os.makedirs(dst, exist_ok=True)
shutil.copy(patch, f"{dst}/patch.diff")
demo = glob.glob(f"{src}/**/zz_demo_test.go", recursive=True)[0]
rel = os.path.relpath(demo, src)
os.makedirs(os.path.dirname(f"{dst}/demo/{rel}"), exist_ok=True)
shutil.copy(demo, f"{dst}/demo/{rel}")
if os.path.exists(f"{src}/NOTES.md"): shutil.copy(f"{src}/NOTES.md", f"{dst}/NOTES.md")
head = subprocess.check_output(['git','-C','/repo','rev-parse','--short','HEAD']).decode().strip()
meta = {
 "id": sid, "property": prop, "author": "independent sub-agent given only the property text and a scratch worktree",
 "needs_to_manifest": needs,
 "patch": "patch.diff (git -C /repo apply seeded/%s/patch.diff; applies to /repo at %s)" % (sid, head),
 "demonstration": "demo/%s (copy next to the package it names; fails with the patch, passes without)" % rel,
 "confirmed": "tools/verify_mut.sh in the scratch worktree: go1.26.8 build ./... ok; go1.26.8 test -vet=off -count=1 ./... passes with the change (demo moved aside); demo fails with the change; demo passes with the change reverted",
 "checked_with": "tools/mutcheck.sh seeded/%s/patch.diff q <props> (applies to /repo, runs the quick checks, git checkout -- .)" % sid,
 "detected_by": detected, "notes": notes,
}
json.dump(meta, open(f"{dst}/meta.json","w"), indent=1)
print("archived", dst)
