#!/bin/bash
# verify_mut.sh <dir>: confirm a seeded change (MUTATION.diff + zz_demo_test.go) in a scratch worktree:
# builds, existing suite passes with it, demo fails with it and passes without it.
set -u
export GOFLAGS=-mod=mod GOPROXY=off GOSUMDB=off GOTOOLCHAIN=local
d=$1; cd "$d" || exit 2
demo=$(find . -name 'zz_demo_test.go' | head -1); pkg=$(dirname "$demo")
[ -n "$demo" ] || { echo "NO DEMO"; exit 2; }
git diff --quiet -- . ':(exclude)**/zz_demo_test.go' && { echo "change not applied; applying MUTATION.diff"; git apply MUTATION.diff || exit 2; }
go1.26.8 build ./... || { echo "BUILD FAILS"; exit 1; }
mv "$demo" /tmp/zz_demo_hold.go
if go1.26.8 test -vet=off -count=1 ./... > /tmp/mut_suite.log 2>&1; then echo "suite passes with change"; else echo "SUITE FAILS WITH CHANGE"; tail -20 /tmp/mut_suite.log; mv /tmp/zz_demo_hold.go "$demo"; exit 1; fi
mv /tmp/zz_demo_hold.go "$demo"
if go1.26.8 test -vet=off -count=1 "$pkg" > /tmp/mut_demo1.log 2>&1; then echo "DEMO PASSES WITH CHANGE (bad)"; exit 1; else echo "demo fails with change: $(grep -m2 -- '--- FAIL' /tmp/mut_demo1.log | tr '\n' ' ')"; fi
git diff -- . ':(exclude)**/zz_demo_test.go' ':(exclude)MUTATION.diff' ':(exclude)NOTES.md' > /tmp/mut_cur.diff
git apply -R /tmp/mut_cur.diff || { echo "cannot revert"; exit 2; }
if go1.26.8 test -vet=off -count=1 "$pkg" > /tmp/mut_demo2.log 2>&1; then echo "demo passes without change"; else echo "DEMO FAILS WITHOUT CHANGE (bad)"; tail -20 /tmp/mut_demo2.log; git apply /tmp/mut_cur.diff; exit 1; fi
git apply /tmp/mut_cur.diff
echo CONFIRMED
