package sim

// The process-wide in-memory bucket of s3db (tables created without
// s3_bucket) is an AWS SDK client talking to a gofakes3 server over a real
// socket. Inside a synctest bubble sockets hang, so hook H8 lets the simulator
// build the same pieces (SDK client, gofakes3 handler, in-memory backend)
// joined by an in-process RoundTripper instead of a socket. The lazy creation
// and its locking in open.go stay real code; the simulator counts creations.

import (
	"fmt"
	"net/http"
	"net/http/httptest"
	"os"
	"runtime"
	"sync/atomic"

	"github.com/aws/aws-sdk-go/aws"
	"github.com/aws/aws-sdk-go/aws/credentials"
	"github.com/aws/aws-sdk-go/aws/session"
	"github.com/aws/aws-sdk-go/service/s3"
	"github.com/johannesboyne/gofakes3"
	"github.com/johannesboyne/gofakes3/backend/s3mem"
	"github.com/jrhy/s3db"
)

type handlerTransport struct{ h http.Handler }

func (t handlerTransport) RoundTrip(req *http.Request) (*http.Response, error) {
	rec := httptest.NewRecorder()
	t.h.ServeHTTP(rec, req)
	res := rec.Result()
	res.Request = req
	return res, nil
}

// InMemCreated counts how often the process-wide in-memory bucket was created
// since the last ResetInMem.
var InMemCreated int32

func ResetInMem() {
	atomic.StoreInt32(&InMemCreated, 0)
	s3db.VerifResetInMemoryS3()
}

func init() {
	// (the SDK insists on *http.Transport when a custom CA bundle is configured; nothing here uses TLS)
	os.Unsetenv("AWS_CA_BUNDLE")
	s3db.VerifInMemoryS3 = func() (*s3.S3, string, func()) {
		n := atomic.AddInt32(&InMemCreated, 1)
		// creating the real thing takes milliseconds (listener, session); keep other threads a chance to
		// arrive while this one is inside, without blocking on anything the bubble cannot see
		for i := 0; i < 200; i++ {
			runtime.Gosched()
		}
		faker := gofakes3.New(s3mem.New())
		sess, err := session.NewSession(&aws.Config{
			Credentials:      credentials.NewStaticCredentials("TEST-ACCESSKEYID", "TEST-SECRETACCESSKEY", ""),
			Endpoint:         aws.String(fmt.Sprintf("http://inmem-%d.sim", n)),
			Region:           aws.String("ca-west-1"),
			DisableSSL:       aws.Bool(true),
			S3ForcePathStyle: aws.Bool(true),
			HTTPClient:       &http.Client{Transport: handlerTransport{faker.Server()}},
			MaxRetries:       aws.Int(0),
		})
		if err != nil {
			panic(err)
		}
		client := s3.New(sess)
		bucket := fmt.Sprintf("inmem%d", n)
		if _, err := client.CreateBucket(&s3.CreateBucketInput{Bucket: &bucket}); err != nil {
			panic(fmt.Sprintf("in-memory bucket: %v", err))
		}
		return client, bucket, func() {}
	}
}
