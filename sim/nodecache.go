package sim

// Observer for the per-table node cache (hook H6). mast treats cached nodes as
// immutable and shared. The observer remembers the shape (keys and links) each
// node had when it entered the cache and, on every hit, compares the shape it
// is served with. A node served with a different shape is how the open finding
// KF-14 reaches histories without any rollback; the count is used only to
// attribute a violation to that finding, it is not an oracle by itself.

import (
	"fmt"
	"reflect"
	"strings"
	"sync"
	"sync/atomic"

	"github.com/jrhy/mast"
	"github.com/jrhy/s3db"
)

type obsCache struct {
	inner mast.NodeCache
	w     *World
	mu    sync.Mutex
	shape map[interface{}]string
}

func nodeShape(v interface{}) string {
	rv := reflect.ValueOf(v)
	if rv.Kind() != reflect.Ptr || rv.IsNil() {
		return ""
	}
	n := rv.Elem().FieldByName("Node")
	if !n.IsValid() {
		return ""
	}
	var sb strings.Builder
	fmt.Fprintf(&sb, "k%d", n.FieldByName("Key").Len())
	links := n.FieldByName("Link")
	for i := 0; i < links.Len(); i++ {
		l := links.Index(i)
		switch {
		case l.IsNil():
			sb.WriteString(" -")
		case l.Elem().Kind() == reflect.String:
			sb.WriteString(" s:" + l.Elem().String())
		default:
			sb.WriteString(" ptr") // an in-memory child: never legitimate in a cached node
		}
	}
	return sb.String()
}

func (c *obsCache) Add(key, value interface{}) {
	c.mu.Lock()
	c.shape[key] = nodeShape(value)
	c.mu.Unlock()
	c.inner.Add(key, value)
}

func (c *obsCache) Contains(key interface{}) bool { return c.inner.Contains(key) }

func (c *obsCache) Get(key interface{}) (interface{}, bool) {
	v, ok := c.inner.Get(key)
	if ok {
		c.mu.Lock()
		was, seen := c.shape[key]
		c.mu.Unlock()
		if now := nodeShape(v); seen && was != "" && now != was {
			atomic.AddInt32(&c.w.StaleCacheServed, 1)
		}
	}
	return v, ok
}

func init() {
	s3db.VerifNodeCache = func(inner mast.NodeCache) mast.NodeCache {
		curMu.Lock()
		w := current
		curMu.Unlock()
		if w == nil {
			return inner
		}
		return &obsCache{inner: inner, w: w, shape: map[interface{}]string{}}
	}
}

// Remove passes an eviction through (kv evicts the nodes a vacuum deletes).
func (c *obsCache) Remove(key interface{}) {
	c.mu.Lock()
	delete(c.shape, key)
	c.mu.Unlock()
	if r, ok := c.inner.(interface{ Remove(key interface{}) }); ok {
		r.Remove(key)
	}
}
