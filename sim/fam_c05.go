package sim

// C05: transactions are atomic and isolated; rollback restores; nothing leaks
// early; one write time per transaction.

import (
	"fmt"
	"math/rand/v2"
	"sort"
	"strings"
	"time"
)

type C05Stmt struct {
	Kind string `json:"kind"` // insert update delete dup nullkey select refresh vacuum version
	Key  int    `json:"key,omitempty"`
	Val  int    `json:"val,omitempty"`
	Col  int    `json:"col,omitempty"`
	Fail int    `json:"fail,omitempty"` // the n-th storage request of this statement fails cleanly (0 = none); explicit transactions only
}

type C05Txn struct {
	Stmts     []C05Stmt `json:"stmts"`
	End       string    `json:"end"`                     // commit rollback auto (each statement its own autocommit transaction)
	WriteTime int64     `json:"write_ahead_s,omitempty"` // explicit write_time this many whole seconds ahead of the clock; 0 = default
	FailAt    int       `json:"fail_at,omitempty"`       // commit: the n-th storage request of COMMIT fails cleanly (0 = none)
}

type C05Params struct {
	EPN    int      `json:"epn"`
	Cache  int      `json:"cache"`
	Cols   []string `json:"cols"`
	Txns   []C05Txn `json:"txns"`
	Polls  int      `json:"polls"` // read-only poller opens interleaved with the writer
	Policy string   `json:"policy"`
}

func init() {
	Register(&Family{Property: "C05", Name: "txn", Gen: func(r *rand.Rand, tier string) interface{} {
		p := &C05Params{EPN: []int{2, 2, 3, 4, 0}[r.IntN(5)], Cache: []int{0, 0, 4, 1000}[r.IntN(4)], Policy: []string{"random", "sticky"}[r.IntN(2)]}
		nc := 1 + r.IntN(2)
		for i := 0; i < nc; i++ {
			p.Cols = append(p.Cols, string(rune('a'+i)))
		}
		keys := []int{1, 2, 3, 4, 6, 8, 9, 12, 16, 27, 32, -2, 0, 5}
		nt := 2 + r.IntN(4)
		val := 0
		for t := 0; t < nt; t++ {
			tx := C05Txn{End: []string{"commit", "commit", "commit", "rollback", "auto"}[r.IntN(5)]}
			ns := 1 + r.IntN(6)
			for s := 0; s < ns; s++ {
				val++
				st := C05Stmt{Key: keys[r.IntN(len(keys))], Val: val, Col: r.IntN(nc)}
				switch k := r.IntN(40); {
				case k < 14:
					st.Kind = "insert"
				case k < 22:
					st.Kind = "update"
				case k < 28:
					st.Kind = "delete"
				case k < 31:
					st.Kind = "dup" // INSERT of a key that exists: constraint failure inside the transaction
				case k < 33:
					st.Kind = "nullkey"
				case k < 37:
					st.Kind = "select"
				case k < 38:
					st.Kind = "refresh"
				case k < 39:
					st.Kind = "vacuum"
				default:
					st.Kind = "version"
				}
				if tx.End != "auto" && s > 0 && (st.Kind == "insert" || st.Kind == "update" || st.Kind == "delete") && r.IntN(8) == 0 {
					st.Fail = 1 + r.IntN(3)
				}
				if tx.End != "auto" && s > 0 && st.Fail == 0 && r.IntN(12) == 0 {
					// a statement of the transaction addresses a second s3db table of the connection that refuses
					// writes (read-only): it fails in that table's xBegin, the transaction goes on
					st.Kind = "other-table-refused"
				}
				tx.Stmts = append(tx.Stmts, st)
			}
			if r.IntN(4) == 0 {
				tx.WriteTime = int64(1 + r.IntN(100))
			} else if t > 0 && p.Txns[t-1].WriteTime != 0 && r.IntN(2) == 0 {
				tx.WriteTime = -1 // the connection keeps the write_time it has (a bulk load pinned to one time)
			}
			if tx.End == "commit" && r.IntN(5) == 0 {
				tx.FailAt = 1 + r.IntN(6)
			}
			p.Txns = append(p.Txns, tx)
		}
		p.Polls = r.IntN(5)
		return p
	}, Run: runC05})
}

func runC05(x *Exec) {
	var p C05Params
	if !x.Params(&p) || p.EPN == 1 || p.EPN < 0 || p.Cache < 0 || len(p.Cols) == 0 || len(p.Cols) > 3 || len(p.Txns) > 12 || p.Polls > 8 {
		x.Invalid()
		return
	}
	for i, c := range p.Cols {
		if c != string(rune('a'+i)) {
			x.Invalid()
			return
		}
	}
	for _, t := range p.Txns {
		if t.WriteTime < -1 || t.WriteTime > 100000 {
			x.Invalid()
			return
		}
		for _, s := range t.Stmts {
			if s.Col < 0 || s.Col >= len(p.Cols) {
				x.Invalid()
				return
			}
		}
	}
	x.Bubble(func(w *World) {
		w.Policy = p.Policy
		lay := TableLayout("p")
		c := w.NewClient("c0")
		poller := w.NewClient("poll")
		opts := TableOpts{Prefix: "p", Columns: "k primary key, " + strings.Join(p.Cols, ", "), EPN: p.EPN, Cache: p.Cache}
		var t string
		var fatal error
		w.Solo(c, func() {
			t = w.TableName("t")
			if _, fatal = c.Exec(c.CreateSQL(t, opts)); fatal == nil {
				_, fatal = c.Exec("CREATE TABLE n(k PRIMARY KEY, " + strings.Join(p.Cols, ", ") + ") WITHOUT ROWID")
			}
		})
		var t2 string
		for _, tx := range p.Txns {
			for _, st := range tx.Stmts {
				if st.Kind == "other-table-refused" && t2 == "" && fatal == nil {
					w.Solo(c, func() {
						t2 = w.TableName("ro")
						_, fatal = c.Exec(c.CreateSQL(t2, TableOpts{Prefix: "q", Columns: "k primary key, a", ReadOnly: true}))
					})
				}
			}
		}
		if fatal != nil {
			x.Fail("C05-unexpected-error", "setup: %v", fatal)
			return
		}
		full := "SELECT k"
		for _, col := range p.Cols {
			full += ", " + col
		}
		committed := map[string]bool{"[]": true} // every committed state of the table
		var pollViews []string
		versionNames := func() []string {
			cur, mer := lay.Versions(w.S.Bucket)
			all := append(append([]string{}, cur...), mer...)
			sort.Strings(all)
			return all
		}
		leakable := map[string]bool{}
		leftover, keptWT, stmtFailedDirty := false, false, false
		for _, tx := range p.Txns {
			keptWT = keptWT || tx.WriteTime == -1
		}
		compare := func(when string) bool {
			rs, es := c.Query(full + " FROM " + t + " ORDER BY k")
			rn, en := c.Query(full + " FROM n ORDER BY k")
			x.Check()
			if es != nil && len(leakable) > 0 && strings.Contains(es.Error(), "NoSuchKey") {
				// KF-14, worse form: the node object that leaked through the rolled-back (failed) COMMIT was marked
				// clean by the failed flush and is referenced by a later version although it was never stored
				x.Fail("C05-rollback-leak", "%s: after a rolled-back transaction a later commit refers to a node that was never stored: %v", when, es)
				return false
			}
			if es != nil || en != nil {
				x.Fail("C05-read-failed", "%s: s3db err=%v native err=%v", when, es, en)
				return false
			}
			if RowsString(rs) != RowsString(rn) {
				sm, nm := RowsByKey(rs, 0), RowsByKey(rn, 0)
				leak := len(leakable) > 0
				for k, r := range nm {
					if strings.Join(sm[k], ",") != strings.Join(r, ",") {
						leak = false
					}
				}
				for k := range sm {
					if _, ok := nm[k]; !ok && !leakable[k] {
						leak = false
					}
				}
				if leak {
					x.Fail("C05-rollback-leak", "%s: rows inserted by a rolled-back transaction are visible again: s3db %s native %s", when, RowsString(rs), RowsString(rn))
					return false
				}
				class := "C05-view-differs"
				if stmtFailedDirty {
					class = "C05-view-differs-after-failed-statement-in-transaction"
				} else if leftover && keptWT {
					// open finding KF-29: transactions pinned to one write_time, a version left listed next to
					// its descendants by a failed retire step, and an open or refresh that merges them with
					// every value tied
					class = "C05-view-differs-tied-ancestor-merged"
				}
				x.Fail(class, "%s: the connection sees %s, expected (its own writes applied to the pre-BEGIN rows) %s", when, RowsString(rs), RowsString(rn))
				return false
			}
			return true
		}
		writer := func() {
			var maxWT, pinnedWT time.Time
			for ti, tx := range p.Txns {
				if x.Failed() {
					return
				}
				c.Step("advance:1000000")
				desc := fmt.Sprintf("transaction %d (%s)", ti, tx.End)
				// write times must not decrease (the twin is plain SQLite): the clock is
				// moved past every explicit write time used so far
				if d := maxWT.Sub(time.Now()); d >= 0 {
					c.Step(fmt.Sprintf("advance:%d", int64(d+time.Second)))
				}
				var explicitWT time.Time
				switch {
				case tx.WriteTime == -1 && !pinnedWT.IsZero():
					explicitWT = pinnedWT // write_time stays as the previous transaction set it
					x.Probe("write-time-kept-across-transactions")
				case tx.WriteTime > 0:
					explicitWT = time.Now().Truncate(time.Second).Add(time.Duration(tx.WriteTime+1) * time.Second)
					maxWT = explicitWT
					c.SetWriteTime(int64(explicitWT.Sub(T0)))
				default:
					c.SetWriteTime(0)
				}
				pinnedWT = explicitWT
				before := versionNames()
				beforeRows, _ := c.Query(full + " FROM n ORDER BY k")
				explicit := tx.End != "auto"
				if explicit {
					if _, err := c.Exec("BEGIN"); err != nil {
						x.Fail("C05-unexpected-error", "%s: BEGIN: %v", desc, err)
						return
					}
				}
				var firstWrite time.Time
				wtUnknown := false
				touched := map[int]bool{}
				var inserted []string
				dirty := false
				for si, st := range tx.Stmts {
					c.Step("advance:1000")
					sd := fmt.Sprintf("%s statement %d %s k=%d", desc, si, st.Kind, st.Key)
					now := time.Now()
					var es, en error
					var ns int64
					col := p.Cols[st.Col]
					faultHit := false
					run := func(sql string, args ...interface{}) {
						if st.Fail > 0 && explicit && !keptWT {
							w.Faults = []*FaultSpec{{Client: "c0", Nth: st.Fail, Kind: FaultErr}}
						}
						ns, es = c.Exec(strings.ReplaceAll(sql, "{T}", t), args...)
						if len(w.Faults) > 0 {
							faultHit = w.Faults[0].Fired > 0 && es != nil && !isConstraint(es)
							w.Faults = nil
						}
						if faultHit {
							// the statement failed on a storage error: it has no effect, the twin does not run it
							en = nil
							return
						}
						_, en = c.Exec(strings.ReplaceAll(sql, "{T}", "n"), args...)
					}
					switch st.Kind {
					case "insert", "dup":
						run("INSERT INTO {T}(k,"+col+") VALUES (?,?)", st.Key, st.Val)
					case "nullkey":
						run("INSERT INTO {T}(k,"+col+") VALUES (NULL,?)", st.Val)
					case "update":
						run("UPDATE {T} SET "+col+"=? WHERE k=?", st.Val, st.Key)
					case "delete":
						run("DELETE FROM {T} WHERE k=?", st.Key)
					case "select":
						if !compare(sd) {
							return
						}
						continue
					case "other-table-refused":
						// the refused statement is no write of the transaction: rows, write time and what COMMIT
						// publishes are as if it had not been issued
						_, oerr := c.Exec("INSERT INTO "+t2+"(k,a) VALUES (?,?)", st.Key, st.Val)
						x.Check()
						if oerr == nil {
							x.Fail("C05-unexpected-error", "%s: a write to the read-only table %s was accepted", sd, t2)
							return
						}
						x.Probe("refused-write-to-second-table-inside-transaction")
						if !compare(sd + fmt.Sprintf(" (err=%v)", oerr)) {
							return
						}
						continue
					case "version":
						c.Query("select s3db_version(?)", t) // may refuse while uncommitted; must not disturb anything
						if !compare(sd) {
							return
						}
						continue
					case "refresh":
						// inside a transaction with uncommitted writes a refresh must not silently drop them
						_, rerr := c.Query("select s3db_refresh(?)", t)
						x.Probe("refresh-inside-transaction")
						if explicit && dirty && rerr == nil {
							x.Probe("refresh-inside-dirty-transaction-accepted")
						}
						if !compare(sd + fmt.Sprintf(" (refresh err=%v)", rerr)) {
							return
						}
						if !dirty && rerr == nil {
							// a refresh with nothing uncommitted may merge versions an earlier commit left
							// side by side (its retire step failed) and publish the merge: maintenance, not
							// a write of this transaction, so ROLLBACK does not undo it
							if nb := versionNames(); fmt.Sprint(nb) != fmt.Sprint(before) {
								x.Probe("clean-refresh-in-transaction-published-merge")
								before = nb
							}
						}
						continue
					case "vacuum":
						rows, verr := c.Query("select * from s3db_vacuum(?, ?)", t, FmtTime(time.Now().Add(-time.Hour))[:19])
						x.Probe("vacuum-inside-transaction")
						if !compare(sd + fmt.Sprintf(" (vacuum %s err=%v)", RowsString(rows), verr)) {
							return
						}
						if explicit && dirty {
							// nothing of the open transaction may be published early
							after := versionNames()
							if fmt.Sprint(after) != fmt.Sprint(before) {
								if rows2, err := pollOnce(w, poller, opts, full); err == nil && !committed[rows2] {
									x.Fail("C05-leaked-early", "%s: vacuum inside an open transaction published uncommitted writes: another opener sees %s", sd, rows2)
									return
								}
							}
						}
						continue
					}
					if faultHit {
						x.Probe("statement-failed-on-storage-error-inside-transaction")
						if firstWrite.IsZero() {
							// the error may have hit xBegin itself (then the next statement begins anew and fixes a later
							// time) or the statement after a successful xBegin: the transaction's time is one of the two
							wtUnknown = true
						}
						if dirty {
							// open finding KF-42: mast's Insert splices the key into a node the transaction already
							// owns before it loads the child it has to split; when that load fails the node keeps the key
							stmtFailedDirty = true
						}
						if !compare("after failed " + sd) {
							return
						}
						continue
					}
					x.Check()
					if errClass(es) != errClass(en) {
						x.Fail("C05-outcome-differs", "%s: s3db outcome %q (%v), native outcome %q (%v)", sd, errClass(es), es, errClass(en), en)
						return
					}
					if es == nil && ns > 0 {
						if firstWrite.IsZero() {
							firstWrite = now
						}
						touched[st.Key] = true
						dirty = true
						if st.Kind == "insert" || st.Kind == "dup" {
							inserted = append(inserted, fmt.Sprintf("i:%d", st.Key))
						}
					} else if firstWrite.IsZero() && (st.Kind == "update" || st.Kind == "delete" || es != nil) {
						// xBegin happens at the first statement that addresses the table for writing, even if it touches no row
						firstWrite = now
					}
					if !explicit {
						// autocommit: each statement is its own transaction
						if es == nil {
							if rows, err := c.Query(full + " FROM n ORDER BY k"); err == nil {
								committed[RowsString(rows)] = true
							}
						}
						firstWrite = time.Time{}
					}
					if !compare("after " + sd) {
						return
					}
				}
				if !explicit {
					continue
				}
				switch tx.End {
				case "rollback":
					if _, err := c.Exec("ROLLBACK"); err != nil {
						x.Fail("C05-unexpected-error", "%s: ROLLBACK: %v", desc, err)
						return
					}
					for _, k := range inserted {
						leakable[k] = true
					}
					x.Check()
					if after := versionNames(); fmt.Sprint(after) != fmt.Sprint(before) {
						x.Fail("C05-rollback-left-version", "%s: after ROLLBACK the bucket lists versions %v, before BEGIN %v", desc, after, before)
						return
					}
					rows, _ := c.Query(full + " FROM " + t + " ORDER BY k")
					if RowsString(rows) != RowsString(beforeRows) && len(leakable) == 0 {
						x.Fail("C05-rollback-not-restored", "%s: rows after ROLLBACK %s, before BEGIN %s", desc, RowsString(rows), RowsString(beforeRows))
						return
					}
					if !compare("after ROLLBACK of " + desc) {
						return
					}
					x.Probe("rolled-back")
				case "commit":
					if tx.FailAt > 0 {
						w.Faults = []*FaultSpec{{Client: "c0", Nth: tx.FailAt, Kind: FaultErr}}
					}
					mutBefore := len(w.S.Mut)
					_, cerr := c.Exec("COMMIT")
					if cerr == nil && len(w.Faults) > 0 && w.Faults[0].Fired > 0 {
						// the fault hit the retire step, whose errors are swallowed: a retired version stays listed
						leftover = true
						x.Probe("commit-acknowledged-retire-failed")
					}
					w.Faults = nil
					if cerr != nil {
						c.Exec("ROLLBACK")
						if tx.FailAt == 0 {
							x.Fail("C05-unexpected-error", "%s: COMMIT: %v", desc, cerr)
							return
						}
						x.Probe("commit-failed-forced-rollback")
						x.Check()
						if after := versionNames(); fmt.Sprint(after) != fmt.Sprint(before) {
							x.Fail("C05-rollback-left-version", "%s: COMMIT failed (%v) but the bucket lists versions %v, before BEGIN %v", desc, cerr, after, before)
							return
						}
						for _, k := range inserted {
							leakable[k] = true
						}
						if !compare("after failed COMMIT of " + desc) {
							return
						}
						continue
					}
					rows, _ := c.Query(full + " FROM n ORDER BY k")
					committed[RowsString(rows)] = true
					// exactly one new version object per changing transaction
					newVers := 0
					var newName string
					for _, mu := range w.S.MutBy("c0", mutBefore) {
						if mu.Op == OpPut && strings.HasPrefix(mu.Key, lay.Current) {
							newVers++
							newName = strings.TrimPrefix(mu.Key, lay.Current)
						}
					}
					x.Check()
					if newVers > 1 {
						x.Fail("C05-not-one-version", "%s published %d new versions", desc, newVers)
						return
					}
					if newVers == 0 && RowsString(rows) != RowsString(beforeRows) {
						x.Fail("C05-commit-not-published", "%s changed rows (%s -> %s) but published no version", desc, RowsString(beforeRows), RowsString(rows))
						return
					}
					if !compare("after COMMIT of " + desc) {
						return
					}
					// one write time for everything the transaction wrote
					if newVers == 1 && len(touched) > 0 && !wtUnknown {
						wt, err := lay.WalkVersion(w.S.Bucket, newName)
						if leaked := wt.UncountedLeak(leakable); err == nil && leaked != nil {
							// KF-14, invisible form: an entry written by a rolled-back transaction (a deleted row, or
							// one a later INSERT overwrote without counting it) is part of the committed tree; the
							// recorded size is the restored counter
							x.Fail("C05-rollback-leak", "%s: entries written by a rolled-back transaction are stored in the committed tree uncounted (keys %v): %s", desc, leaked, wt.Err())
							return
						}
						if err != nil || !wt.OK() {
							x.Fail("C05-version-incomplete", "%s: %v %s", desc, err, wt.Err())
							return
						}
						want := firstWrite.UnixNano()
						if !explicitWT.IsZero() {
							want = explicitWT.UnixNano()
						}
						x.Check()
						for _, e := range wt.Entries {
							if e.Key.T == 1 && touched[int(e.Key.I)] && e.Mod != want {
								x.Fail("C05-write-time", "%s: entry %s carries write time %s, the transaction's write time is %s (explicit=%v)", desc,
									e.Key.Canon(), time.Unix(0, e.Mod).UTC().Format(wtLayout), time.Unix(0, want).UTC().Format(wtLayout), !explicitWT.IsZero())
								return
							}
						}
						x.Probe("write-time-checked")
					}
					x.Probe("committed")
				}
			}
		}
		poll := func() {
			for i := 0; i < p.Polls; i++ {
				poller.Step("poll")
				rows, err := pollOnce(w, poller, opts, full)
				if err != nil {
					x.Fail("C05-unexpected-error", "poller: %v", err)
					return
				}
				pollViews = append(pollViews, rows)
			}
		}
		w.Go(c, writer)
		w.Go(poller, poll)
		w.Run()
		w.CheckPanics()
		const kf42 = "-after-failed-statement-in-transaction"
		if stmtFailedDirty && x.viol != nil && strings.HasPrefix(x.viol.Class, "C05-") && !strings.HasSuffix(x.viol.Class, kf42) {
			x.viol.Class += kf42 // whatever shows later in the run comes after the damage (KF-42)
		}
		if w.Viol != nil || x.Failed() {
			return
		}
		for _, v := range pollViews {
			x.Check()
			if !committed[v] {
				var cs []string
				for k := range committed {
					cs = append(cs, k)
				}
				sort.Strings(cs)
				class := "C05-partial-visible"
				if leftover && keptWT {
					class = "C05-partial-visible-tied-ancestor-merged" // KF-29, seen by another opener
				}
				x.Fail(class, "another opener saw %s, which is not the state after any committed transaction (%s)", v, strings.Join(cs, " ; "))
				return
			}
		}
		x.ProbeN("poller-views", len(pollViews))
		x.Sig(LogHash(w.S.Log))
		if len(committed) >= 3 {
			x.Nontrivial()
		}
	})
}

func pollOnce(w *World, poller *Client, opts TableOpts, full string) (string, error) {
	pt := w.TableName("poll")
	o := opts
	o.ReadOnly = true
	o.Cache = 0
	if _, err := poller.Exec(poller.CreateSQL(pt, o)); err != nil {
		return "", err
	}
	defer poller.Exec("drop table " + pt)
	rows, err := poller.Query(full + " FROM " + pt + " ORDER BY k")
	return RowsString(rows), err
}
