package sim

// C19: independent connections can be used from different threads. Built
// with -race. Batch release (world.go) lets several clients run their
// client-side code in parallel between store calls while the bucket history
// stays seeded.

import (
	"fmt"
	"math/rand/v2"
	"strings"
	"sync/atomic"
	"time"
)

type C19Op struct {
	Op  string `json:"op"` // insert update delete select refresh vacuum version recreate deadline-past deadline-clear count
	Key int    `json:"key,omitempty"`
	Val int    `json:"val,omitempty"`
}

type C19Params struct {
	EPN     int       `json:"epn"`
	Cache   int       `json:"cache"`
	Streams [][]C19Op `json:"streams"`
	Shared  bool      `json:"shared"`        // all connections on one prefix (else one prefix each)
	Mem     bool      `json:"mem,omitempty"` // every connection first creates a table in the process-wide in-memory bucket (no s3_bucket)
}

func init() {
	Register(&Family{Property: "C19", Name: "threads", Gen: func(r *rand.Rand, tier string) interface{} {
		p := &C19Params{EPN: []int{2, 4, 0}[r.IntN(3)], Cache: []int{0, 4}[r.IntN(2)], Shared: r.IntN(3) == 0}
		m := 2 + r.IntN(5)
		for i := 0; i < m; i++ {
			var s []C19Op
			n := 4 + r.IntN(12)
			for j := 0; j < n; j++ {
				op := C19Op{Key: 1 + r.IntN(12), Val: i*1000 + j}
				switch k := r.IntN(40); {
				case k < 14:
					op.Op = "insert"
				case k < 20:
					op.Op = "update"
				case k < 24:
					op.Op = "delete"
				case k < 29:
					op.Op = "select"
				case k < 32:
					op.Op = "refresh"
				case k < 34:
					op.Op = "vacuum"
				case k < 36:
					op.Op = "version"
				case k < 37:
					op.Op = "recreate"
				case k < 38:
					op.Op = "bad-create"
				case k < 39 && j%2 == 0:
					op.Op = "common"
				case k < 39:
					op.Op = "deadline-past"
				default:
					op.Op = "count"
				}
				s = append(s, op)
				if op.Op == "deadline-past" {
					// (a read, not a write: a write failing at COMMIT time is C05/C14 territory and runs into known finding KF-14)
					s = append(s, C19Op{Op: "select", Key: 1 + j%5}, C19Op{Op: "deadline-clear"})
				}
			}
			p.Streams = append(p.Streams, s)
		}
		p.Mem = r.IntN(4) == 0
		if r.IntN(3) == 0 {
			// every connection starts by creating the same table name: all CREATEs are in flight together
			for i := range p.Streams {
				p.Streams[i] = append([]C19Op{{Op: "common"}}, p.Streams[i]...)
			}
		}
		return p
	}, Run: runC19})
}

type c19Result struct {
	common   bool
	outcomes []string
	final    string
	err      string
}

func runC19(x *Exec) {
	var p C19Params
	if !x.Params(&p) || p.EPN == 1 || p.EPN < 0 || len(p.Streams) < 1 || len(p.Streams) > 8 {
		x.Invalid()
		return
	}
	for _, s := range p.Streams {
		if len(s) > 60 {
			x.Invalid()
			return
		}
	}
	hasCommon := false
	for _, s := range p.Streams {
		for _, op := range s {
			hasCommon = hasCommon || op.Op == "common"
		}
	}
	// stream i on connection c, table prefix pfx; write time fixed per connection
	stream := func(w *World, c *Client, idx int, pfx string, ops []C19Op, res *c19Result, commonName string) {
		opts := TableOpts{Prefix: pfx, Columns: "k primary key, a", EPN: p.EPN, Cache: p.Cache}
		t := w.TableName(c.Name)
		if _, err := c.Exec(c.CreateSQL(t, opts)); err != nil {
			res.err = fmt.Sprintf("create: %v", err)
			return
		}
		wt := int64(idx+1) * int64(1000*time.Second)
		if err := c.SetWriteTime(wt); err != nil {
			res.err = fmt.Sprintf("write_time: %v", err)
			return
		}
		if p.Mem {
			// a table in the lazily created process-wide in-memory bucket: all connections get here together,
			// as its first users. The row must survive a refresh (one bucket for the whole process).
			mt := w.TableName(c.Name + "mem")
			_, err := c.Exec(fmt.Sprintf("CREATE VIRTUAL TABLE %s USING s3db (columns='k primary key, a', s3_prefix='mem%d')", mt, idx))
			if err == nil {
				_, err = c.Exec(fmt.Sprintf("insert into %s values (%d,%d)", mt, idx, idx))
			}
			if err == nil {
				_, err = c.Query("select s3db_refresh(?)", mt)
			}
			var rows [][]string
			if err == nil {
				rows, err = c.Query("select * from " + mt)
			}
			if err != nil {
				res.err = fmt.Sprintf("in-memory table: %v", err)
				return
			}
			res.outcomes = append(res.outcomes, "mem:"+RowsString(rows))
		}
		past := false
		for oi, op := range ops {
			var err error
			var out string
			switch op.Op {
			case "insert":
				_, err = c.Exec(fmt.Sprintf("insert into %s values (?,?)", t), op.Key, op.Val)
			case "update":
				_, err = c.Exec(fmt.Sprintf("update %s set a=? where k=?", t), op.Val, op.Key)
			case "delete":
				_, err = c.Exec(fmt.Sprintf("delete from %s where k=?", t), op.Key)
			case "select":
				var rows [][]string
				rows, err = c.Query(fmt.Sprintf("select * from %s where k>=? order by k", t), op.Key)
				out = RowsString(rows)
			case "count":
				var rows [][]string
				rows, err = c.Query("select count(*), max(k) from " + t)
				out = RowsString(rows)
			case "refresh":
				_, err = c.Query("select s3db_refresh(?)", t)
			case "version":
				var rows [][]string
				rows, err = c.Query("select s3db_version(?)", t)
				if !p.Shared && len(rows) == 1 {
					out = "v" // names depend on creation time; only the outcome is compared
				}
			case "vacuum":
				if p.Shared {
					continue
				}
				var rows [][]string
				rows, err = c.Query("select * from s3db_vacuum(?, ?)", t, "2000-01-01 00:00:00")
				out = RowsString(rows)
			case "recreate":
				if past {
					continue // a CREATE under an expired deadline fails by design and would leave the stream without a table
				}
				if _, err = c.Exec("drop table " + t); err == nil {
					t = w.TableName(c.Name)
					_, err = c.Exec(c.CreateSQL(t, opts))
				}
			case "bad-create":
				// a CREATE that SQLite refuses (s3db accepts the column list, SQLite does not) must not keep the
				// name taken: the same name is created properly right afterwards
				if past || hasCommon {
					// (a refused CREATE makes SQLite reset the connection's schema: all its s3db tables leave the
					// by-name registry until SQL touches them again, and a table name shared with other
					// connections would be up for grabs in between - section 12)
					continue
				}
				bn := w.TableName(c.Name + "bad")
				bopts := TableOpts{Prefix: pfx + "bad", Columns: "a primary key, b-c", EPN: p.EPN}
				if _, berr := c.Exec(c.CreateSQL(bn, bopts)); berr == nil {
					res.err = fmt.Sprintf("op %d: CREATE with columns='a primary key, b-c' reported success", oi)
					return
				}
				bopts.Columns = "a primary key, b"
				if _, berr := c.Exec(c.CreateSQL(bn, bopts)); berr != nil {
					res.err = fmt.Sprintf("op %d: after a refused CREATE of the same name a proper CREATE fails: %v", oi, berr)
					return
				}
				_, err = c.Exec("drop table " + bn)
				c.Query("select count(*) from " + t) // back into the registry (see "common")
			case "common":
				// several connections try to create a table of the SAME name: the registry is process-wide, so in
				// any sequential order exactly one of them succeeds; the name is never dropped during the run
				if past || res.common {
					continue
				}
				if _, cerr := c.Exec(c.CreateSQL(commonName, TableOpts{Prefix: pfx + "common", Columns: "k primary key, a", EPN: p.EPN})); cerr == nil {
					res.common = true
				}
				// A failed CREATE makes SQLite reset the connection's schema: its virtual tables are disconnected (and
				// dropped from s3db's by-name registry) until SQL touches them again. Touch the stream's table so that
				// the by-name functions (s3db_version/refresh/vacuum) behave as in the stream-alone reference.
				c.Query("select count(*) from " + t)
				continue
			case "deadline-past":
				_, err = c.Exec("update s3db_conn set deadline='1999-01-01 00:00:00'")
				past = true
			case "deadline-clear":
				_, err = c.Exec("update s3db_conn set deadline=NULL")
				past = false
			}
			o := "ok"
			if err != nil && past && (op.Op == "select" || op.Op == "count") {
				o, out, err = "ok-or-deadline", "", nil
			}
			if err != nil {
				o = "err"
				if !past && !isConstraint(err) {
					res.err = fmt.Sprintf("op %d %s: unexpected error although this connection has no deadline set: %v", oi, op.Op, err)
					return
				}
				if isConstraint(err) {
					o = "constraint"
				}
			} else if past && (op.Op == "select" || op.Op == "count") {
				// a read under an expired deadline fails exactly when it needs the store, and that depends on
				// what the handle holds in memory (a table re-connected after another connection won the
				// same-name CREATE holds nothing): both outcomes are legitimate (what such reads return is C14's subject)
				o, out = "ok-or-deadline", ""
			} else if past && (op.Op == "insert" || op.Op == "update" || op.Op == "delete") && p.Cache == 0 {
				// with the deadline in the past every statement that needs the store must fail
				o = "ok-under-past-deadline"
			}
			res.outcomes = append(res.outcomes, fmt.Sprintf("%s:%s:%s", op.Op, o, out))
		}
		c.Exec("update s3db_conn set deadline=NULL")
		rows, err := c.Query("select * from " + t + " order by k")
		if err != nil {
			res.err = fmt.Sprintf("final select: %v", err)
			return
		}
		res.final = RowsString(rows)
	}
	var alone []*c19Result
	if !p.Shared {
		// reference: every stream alone, one after another
		x.Bubble(func(w *World) {
			ResetInMem()
			for i, ops := range p.Streams {
				c := w.NewClient(fmt.Sprintf("c%d", i))
				res := &c19Result{}
				w.Solo(c, func() { stream(w, c, i, fmt.Sprintf("p%d", i), ops, res, w.TableName("alone_common")) })
				alone = append(alone, res)
			}
		})
		if x.Failed() {
			return
		}
	}
	x.Bubble(func(w *World) {
		// Runs in which several connections create the SAME table name are scheduled in lock-step (seeded
		// request-level interleaving, all CREATEs parked inside their open at once): under true parallelism the
		// winner of the name would be decided by real thread timing and the run would not replay. All other
		// runs use batch release, which is what the race detector needs.
		w.Batch = !hasCommon
		w.Policy = "random"
		ResetInMem()
		var cs []*Client
		for i := range p.Streams {
			cs = append(cs, w.NewClient(fmt.Sprintf("c%d", i)))
		}
		fin := w.NewClient("fin")
		results := make([]*c19Result, len(p.Streams))
		commonName := w.TableName("common")
		for i, ops := range p.Streams {
			i, ops, c := i, ops, cs[i]
			results[i] = &c19Result{}
			pfx := fmt.Sprintf("p%d", i)
			if p.Shared {
				pfx = "shared"
			}
			w.Go(c, func() { stream(w, c, i, pfx, ops, results[i], commonName) })
		}
		w.Run()
		w.CheckPanics()
		if w.Viol != nil {
			return
		}
		x.ProbeN("batches-with-2+-clients-released-together", w.Batches2())
		ncommon, tried := 0, 0
		for i, r := range results {
			if r.common {
				ncommon++
			}
			for _, op := range p.Streams[i] {
				if op.Op == "common" {
					tried++
					break
				}
			}
		}
		x.ProbeN("same-name-create-attempted-by-2+", b2i(tried >= 2))
		if p.Mem {
			x.Check()
			if n := atomic.LoadInt32(&InMemCreated); n > 1 {
				x.Fail("C19-in-memory-bucket-created-twice", "%d connections created the process-wide in-memory bucket; run one after another only the first does", n)
				return
			}
			x.ProbeN("in-memory-bucket-first-use-by-2+", b2i(len(p.Streams) >= 2))
		}
		x.Check()
		if ncommon > 1 {
			x.Fail("C19-same-name-created-twice", "%d connections created a table of the same name concurrently; in any sequential order only one CREATE succeeds (process-wide registry)", ncommon)
			return
		}
		for i, r := range results {
			x.Check()
			if r.err != "" {
				x.Fail("C19-crosstalk-or-error", "connection %d: %s", i, r.err)
				return
			}
			if !p.Shared {
				if strings.Join(r.outcomes, ";") != strings.Join(alone[i].outcomes, ";") || r.final != alone[i].final {
					x.Fail("C19-not-serializable", "connection %d (own prefix) run concurrently gives outcomes %v final %s; the same stream alone gives %v final %s",
						i, r.outcomes, r.final, alone[i].outcomes, alone[i].final)
					return
				}
			}
		}
		// write_time cross-talk: every entry under prefix p<i> carries connection i's write time
		if !p.Shared {
			for i := range p.Streams {
				lay := TableLayout(fmt.Sprintf("p%d", i))
				cur, _ := lay.Versions(w.S.Bucket)
				want := T0.Add(time.Duration(int64(i+1) * int64(1000*time.Second))).UnixNano()
				for _, v := range cur {
					wt, err := lay.WalkVersion(w.S.Bucket, v)
					if err != nil || !wt.OK() {
						continue // reclaimed by the stream's own vacuum
					}
					for _, e := range wt.Entries {
						x.Check()
						if e.Mod != want {
							x.Fail("C19-crosstalk-write-time", "an entry of connection %d's table carries write time %s, the connection's write_time is %s",
								i, time.Unix(0, e.Mod).UTC().Format(wtLayout), time.Unix(0, want).UTC().Format(wtLayout))
							return
						}
					}
				}
			}
			x.Probe("write-time-attribution-checked")
		} else {
			// shared prefix: after everybody stopped, every connection converges to the same rows
			var first string
			w.Batch = false
			for round := 0; round < 2; round++ {
				w.Solo(fin, func() {
					t := w.TableName("fin")
					if _, err := fin.Exec(fin.CreateSQL(t, TableOpts{Prefix: "shared", Columns: "k primary key, a", EPN: p.EPN, ReadOnly: round == 1})); err != nil {
						x.Fail("C19-crosstalk-or-error", "final open: %v", err)
						return
					}
					rows, _ := fin.Query("select * from " + t + " order by k")
					if round == 0 {
						first = RowsString(rows)
					} else if RowsString(rows) != first {
						x.Fail("C19-not-converged", "two opens of the quiescent shared table differ: %s vs %s", first, RowsString(rows))
					}
					fin.Exec("drop table " + t)
				})
			}
			x.Probe("shared-prefix-converged")
		}
		x.Sig(LogHash(w.S.Log))
		if w.Batches2() >= 3 || hasCommon {
			x.Nontrivial()
		}
	})
}
