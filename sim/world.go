package sim

// World: one simulated run. Owns the store, the clients, the schedule and the
// fault plan. Must be created and used inside a synctest bubble; the bubble's
// root goroutine is the scheduler.

import (
	"context"
	"database/sql"
	"fmt"
	"regexp"
	"runtime/debug"
	"sort"
	"strings"
	"sync"
	"sync/atomic"
	"testing/synctest"
	"time"

	"github.com/jrhy/s3db"
	"github.com/jrhy/s3db/kv"
)

// FaultSpec places one fault: the Nth delivered request (1-based) among those
// of Client matching Op/Class (empty = any) gets Kind. Persistent: every
// matching request from the Nth on.
type FaultSpec struct {
	Client     string `json:"client,omitempty"`
	Op         Op     `json:"op,omitempty"`
	Class      string `json:"class,omitempty"`
	Nth        int    `json:"nth"`
	Kind       Fault  `json:"kind"`
	Persistent bool   `json:"persistent,omitempty"`
	seen       int
	Fired      int `json:"-"`
}

type Violation struct {
	Class  string `json:"class"`  // stable identifier of the violated clause, used while shrinking
	Detail string `json:"detail"` // human-readable
}

func (v *Violation) Error() string { return v.Class + ": " + v.Detail }

type Stats struct {
	Steps      int
	Faults     map[string]int // fired, by kind
	Probes     map[string]int
	MaxPending int
	SimNs      int64
}

type World struct {
	skew             map[string]time.Duration // per client: offset of its wall clock (hook H7)
	StaleCacheServed int32                    // node-cache hits that returned a node whose shape changed after it was cached (see nodecache.go)
	S                *Store
	Clients          []*Client
	byName           map[string]*Client
	Faults           []*FaultSpec
	chooser          func(n int) int // the program's decision stream
	Policy           string          // "fifo" | "random" | "sticky"
	last             string
	active           int32
	mu               sync.Mutex
	Stats            Stats
	Budget           int
	Viol             *Violation
	OnDeliver        func(r *Request) Fault // family-specific dynamic faults (consulted first)
	AfterEvent       func(ev *Event)        // called on the scheduler after each delivered event
	tableSeq         int
	start            time.Time

	held         map[string]int
	Batch        bool // batch release (C19)
	batch2       int  // batches that released >= 2 clients
	PermuteMerge bool // permute the version list at every open (hook H2)
	PermuteMaps  bool // permute former map iterations (hook H3)
	Jitter       bool // advance the clock by seeded amounts between events
}

var (
	curMu   sync.Mutex
	current *World
	runCtr  int64
)

func init() {
	s3db.VerifNow = func(endpoint string) time.Time {
		name := strings.TrimPrefix(endpoint, "sim://")
		if i := strings.Index(name, "/"); i >= 0 {
			name = name[:i]
		}
		curMu.Lock()
		w := current
		curMu.Unlock()
		if w == nil {
			return time.Now()
		}
		w.mu.Lock()
		d := w.skew[name]
		w.mu.Unlock()
		return time.Now().Add(d)
	}
	s3db.VerifS3 = func(opts *s3db.S3Options) (kv.S3Interface, bool) {
		if !strings.HasPrefix(opts.Endpoint, "sim://") {
			return nil, false
		}
		curMu.Lock()
		w := current
		curMu.Unlock()
		if w == nil {
			panic("sim endpoint used outside a run")
		}
		name := strings.TrimPrefix(opts.Endpoint, "sim://")
		tag := ""
		if i := strings.Index(name, "/"); i >= 0 {
			name, tag = name[:i], name[i+1:]
		}
		w.mu.Lock()
		c := w.byName[name]
		w.mu.Unlock()
		if c == nil {
			panic("unknown sim client " + name)
		}
		h := w.S.NewHandle(name, tag, opts.ReadOnly, c.dead)
		h.Prefix = opts.Prefix
		h.Historic = len(opts.OnlyVersions) > 0
		if opts.Bucket == "" {
			opts.Bucket = "simbucket"
		}
		return h, true
	}
}

func init() {
	kv.VerifPermute = func(site string, keys []string) {
		curMu.Lock()
		w := current
		curMu.Unlock()
		if w == nil || len(keys) < 2 {
			return
		}
		if (site == "merge-order" && w.PermuteMerge) || (site == "map-order" && w.PermuteMaps) {
			for i := len(keys) - 1; i > 0; i-- {
				j := w.choose(i + 1)
				keys[i], keys[j] = keys[j], keys[i]
			}
			if site == "merge-order" && len(keys) >= 3 {
				w.Probe("merge-permuted-3+")
			}
		}
	}
}

func NewWorld() *World {
	w := &World{S: NewStore(), byName: map[string]*Client{}, Budget: 50000, Policy: "fifo", start: time.Now()}
	w.Stats.Faults = map[string]int{}
	w.Stats.Probes = map[string]int{}
	curMu.Lock()
	current = w
	curMu.Unlock()
	atomic.AddInt64(&runCtr, 1)
	return w
}

func (w *World) Probe(name string) { w.Stats.Probes[name]++ }

// WallClock is what the named client's process reads as the time of day.
func (w *World) WallClock(client string) time.Time {
	w.mu.Lock()
	defer w.mu.Unlock()
	return time.Now().Add(w.skew[client])
}

// SetSkew gives one client's process a wall clock that runs d ahead of (or
// behind) the simulated time: version creation times and default write times
// of that client are taken from it. Call before the client's first statement.
func (w *World) SetSkew(client string, d time.Duration) {
	w.mu.Lock()
	defer w.mu.Unlock()
	if w.skew == nil {
		w.skew = map[string]time.Duration{}
	}
	w.skew[client] = d
	w.Stats.Faults["clock-skew"]++
}

func (w *World) Batches2() int { return w.batch2 }

func (w *World) Fail(class, format string, args ...interface{}) *Violation {
	v := &Violation{Class: class, Detail: fmt.Sprintf(format, args...)}
	if w.Viol == nil {
		w.Viol = v
	}
	return v
}

// Close releases every client. Call before leaving the bubble.
func (w *World) Close() {
	for _, c := range w.Clients {
		c.shutdown()
	}
	synctest.Wait()
	w.Stats.SimNs = int64(time.Since(w.start))
	curMu.Lock()
	if current == w {
		current = nil
	}
	curMu.Unlock()
}

func (w *World) choose(n int) int {
	if n <= 1 || w.chooser == nil {
		return 0
	}
	return w.chooser(n)
}

// Choose exposes the decision stream to families (e.g. merge permutations).
func (w *World) Choose(n int) int { return w.choose(n) }

func (w *World) faultFor(r *Request) Fault {
	if w.OnDeliver != nil {
		if f := w.OnDeliver(r); f != FaultNone {
			return f
		}
	}
	if r.Op == OpStep {
		return FaultNone
	}
	for _, fs := range w.Faults {
		if fs.Client != "" && fs.Client != r.H.Client {
			continue
		}
		if fs.Op != "" && fs.Op != r.Op {
			continue
		}
		if fs.Class != "" && fs.Class != r.Class() {
			continue
		}
		fs.seen++
		if fs.seen == fs.Nth || (fs.Persistent && fs.seen > fs.Nth) {
			fs.Fired++
			return fs.Kind
		}
	}
	return FaultNone
}

// Run is the scheduler loop: it serves parked requests one at a time until
// every submitted client task has finished.
func (w *World) Run() {
	for {
		synctest.Wait()
		if atomic.LoadInt32(&w.active) == 0 {
			return
		}
		if canc := w.S.Cancelled(); len(canc) > 0 {
			for _, r := range canc {
				if ev := w.S.SettleCancelled(r); ev != nil {
					w.Stats.Faults["canceled"]++
					if w.AfterEvent != nil {
						w.AfterEvent(ev)
					}
				}
			}
			continue
		}
		all := w.S.Pending()
		if len(all) > w.Stats.MaxPending {
			w.Stats.MaxPending = len(all)
		}
		var pend, stalled []*Request
		for _, r := range all {
			if r.stalled {
				stalled = append(stalled, r)
			} else {
				pend = append(pend, r)
			}
		}
		if len(pend) == 0 {
			if len(stalled) > 0 {
				// Only time can release a stalled request. Jump to the earliest deadline.
				var d time.Duration = -1
				for _, r := range stalled {
					if r.ctx != nil {
						if dl, ok := r.ctx.Deadline(); ok {
							if x := time.Until(dl); d < 0 || x < d {
								d = x
							}
						}
					}
				}
				if d < 0 {
					// stalled without a deadline: the caller asked to wait forever; release with an error
					w.S.mu.Lock()
					r := stalled[0]
					r.stalled = false
					w.S.mu.Unlock()
					w.deliver(r, FaultErr)
					continue
				}
				w.Probe("deadline-fired-while-parked")
				time.Sleep(d + time.Nanosecond)
				continue
			}
			w.Fail("deadlock", "%d client task(s) unfinished but no request is parked", atomic.LoadInt32(&w.active))
			return
		}
		w.Stats.Steps++
		if w.Stats.Steps > w.Budget {
			w.Fail("step-budget", "run exceeded %d scheduler steps", w.Budget)
			// drain: fail everything so clients can finish
			w.OnDeliver = func(*Request) Fault { return FaultErr }
			w.Budget = 1 << 30
		}
		if w.Jitter && w.choose(4) == 1 { // 0 is the bland decision: no clock movement
			time.Sleep(jitterSteps[w.choose(len(jitterSteps))])
			continue
		}
		if w.Batch {
			// C19: release one parked request of SEVERAL clients together, so that their client-side code
			// between two store calls runs truly in parallel (the race detector needs real concurrency).
			// The store is still served by this goroutine only, in canonical order.
			var sel []*Request
			seen := map[string]bool{}
			for _, r := range pend {
				if seen[r.H.Client] {
					continue
				}
				seen[r.H.Client] = true
				if w.choose(4) != 0 {
					sel = append(sel, r)
				}
			}
			if len(sel) == 0 {
				sel = append(sel, pend[0])
			}
			if len(sel) >= 2 {
				w.batch2++
			}
			for _, r := range sel {
				w.deliver(r, w.faultFor(r))
			}
			continue
		}
		r := pend[w.pick(pend)]
		w.last = r.H.Client
		if r.Op == OpStep && strings.HasPrefix(r.Key, "advance:") {
			var ns int64
			fmt.Sscanf(r.Key, "advance:%d", &ns)
			if ns > 0 {
				time.Sleep(time.Duration(ns))
			}
		}
		w.deliver(r, w.faultFor(r))
	}
}

func (w *World) deliver(r *Request, f Fault) {
	ev := w.S.Deliver(r, f)
	if ev == nil {
		if f == FaultStall {
			w.Stats.Faults[string(f)]++
		}
		return
	}
	if ev.Outcome != "ok" && ev.Outcome != "nosuchkey" {
		w.Stats.Faults[ev.Outcome]++
	}
	if w.AfterEvent != nil {
		w.AfterEvent(ev)
	}
}

func (w *World) pick(pend []*Request) int {
	if w.Policy == "hold-list" {
		// Bias into the LIST->GET window of an opener: after a LIST of the
		// current versions is served, that client is sometimes held back for
		// a few deliveries while the others run.
		var free []int
		for i, r := range pend {
			if w.held[r.H.Client] > 0 {
				continue
			}
			free = append(free, i)
		}
		for c := range w.held {
			if w.held[c] > 0 {
				w.held[c]--
			}
		}
		idx := 0
		if len(free) > 0 {
			idx = free[w.choose(len(free))]
		} else {
			idx = w.choose(len(pend))
		}
		r := pend[idx]
		if r.Op == OpList && strings.HasSuffix(r.Key, "root/current/") && w.choose(2) == 0 {
			if w.held == nil {
				w.held = map[string]int{}
			}
			w.held[r.H.Client] = 1 + w.choose(10)
			w.Probe("opener-held-after-list")
		}
		return idx
	}
	switch w.Policy {
	case "random":
		return w.choose(len(pend))
	case "sticky":
		// stay with the previous client 3 times out of 4 when it has something parked
		var same []int
		for i, r := range pend {
			if r.H.Client == w.last {
				same = append(same, i)
			}
		}
		if len(same) > 0 && len(same) < len(pend) {
			if w.choose(4) != 0 {
				return same[w.choose(len(same))]
			}
		}
		return w.choose(len(pend))
	}
	return 0
}

var jitterSteps = []time.Duration{time.Nanosecond, time.Millisecond, time.Second, time.Second, time.Minute, time.Hour}

// AdvanceClock moves fake time forward; timers that fall due fire.
func (w *World) AdvanceClock(d time.Duration) {
	if d > 0 {
		time.Sleep(d)
		synctest.Wait()
	}
}

// ---- clients ----

type Client struct {
	W          *World
	Name       string
	DB         *sql.DB
	Conn       *sql.Conn
	work       chan func()
	dead       *bool
	Inc        int
	passive    bool
	Panic      interface{}
	PanicStack string
	broken     bool
}

func (w *World) NewClient(name string) *Client {
	if atomic.LoadInt32(&w.active) != 0 {
		panic("NewClient while client tasks are outstanding: it would run them to completion")
	}
	c := &Client{W: w, Name: name, work: make(chan func())}
	dead := false
	c.dead = &dead
	w.mu.Lock()
	w.Clients = append(w.Clients, c)
	w.byName[name] = c
	w.mu.Unlock()
	go func() {
		for f := range c.work {
			f()
		}
	}()
	w.Solo(c, func() { c.open() })
	return c
}

// NewPassiveClient registers a client identity without a goroutine of its
// own: its connection is used from whichever client task calls it (a "fresh
// process" opened in the middle of another client's script).
func (w *World) NewPassiveClient(name string) *Client {
	w.mu.Lock()
	defer w.mu.Unlock()
	if c, ok := w.byName[name]; ok {
		return c
	}
	c := &Client{W: w, Name: name, passive: true}
	dead := false
	c.dead = &dead
	w.Clients = append(w.Clients, c)
	w.byName[name] = c
	return c
}

// Open / CloseDB for passive clients (call on the using goroutine).
func (c *Client) Open()    { c.open() }
func (c *Client) CloseDB() { c.closeDB() }

func (c *Client) open() {
	db, err := sql.Open("sqlite3", ":memory:")
	if err != nil {
		panic(err)
	}
	db.SetMaxOpenConns(1)
	conn, err := db.Conn(context.Background())
	if err != nil {
		panic(err)
	}
	c.DB, c.Conn = db, conn
}

func (c *Client) closeDB() {
	if c.broken {
		return // a connection that saw a panic below C frames is not safe to touch again
	}
	if c.Conn != nil {
		c.Conn.Close()
		c.Conn = nil
	}
	if c.DB != nil {
		c.DB.Close()
		c.DB = nil
	}
}

func (c *Client) shutdown() {
	if c.passive {
		c.closeDB()
		return
	}
	c.W.Solo(c, func() { c.closeDB() })
	close(c.work)
}

// Restart models a process restart: the connection, its table handles and
// caches are discarded; only the bucket survives.
func (c *Client) Restart() {
	c.W.Solo(c, func() {
		c.closeDB()
		dead := false
		c.W.mu.Lock()
		c.dead = &dead
		c.Inc++
		c.broken = false
		c.W.mu.Unlock()
		c.open()
	})
}

// Go submits a task to the client's goroutine.
func (w *World) Go(c *Client, f func()) {
	atomic.AddInt32(&w.active, 1)
	c.work <- func() {
		defer atomic.AddInt32(&w.active, -1)
		defer func() {
			if p := recover(); p != nil {
				c.Panic = p
				c.PanicStack = string(debug.Stack())
				c.broken = true
			}
		}()
		f()
	}
}

// Solo runs one task on one client to completion under the scheduler.
func (w *World) Solo(c *Client, f func()) {
	w.Go(c, f)
	w.Run()
	w.CheckPanics()
}

// Step parks the calling client task until the scheduler picks it, so that
// statement starts are scheduling decisions too.
func (c *Client) Step(label string) {
	h := &Handle{S: c.W.S, ID: 9999, Client: c.Name}
	h.submit(nil, &Request{Op: OpStep, Key: label})
}

func (w *World) CheckPanics() {
	for _, c := range w.Clients {
		if c.Panic != nil && w.Viol == nil {
			w.Fail(PanicClass(c.Panic), "client %s panicked: %v\n%s", c.Name, c.Panic, trimStack(c.PanicStack))
		}
	}
}

func trimStack(s string) string {
	lines := strings.Split(s, "\n")
	var keep []string
	for _, l := range lines {
		if strings.Contains(l, "jrhy/") || strings.Contains(l, "panic") {
			keep = append(keep, strings.TrimSpace(l))
		}
		if len(keep) > 16 {
			break
		}
	}
	return strings.Join(keep, "\n")
}

// Kill marks the client's current incarnation as crashed: all of its later
// requests fail unapplied.
func (c *Client) Kill() { *c.dead = true }

// ---- SQL helpers (called on the client's goroutine, i.e. inside Go/Solo) ----

func (c *Client) Exec(q string, args ...interface{}) (int64, error) {
	res, err := c.Conn.ExecContext(context.Background(), q, args...)
	if err != nil {
		return 0, err
	}
	n, _ := res.RowsAffected()
	return n, nil
}

// Query returns rows of canonical typed values.
func (c *Client) Query(q string, args ...interface{}) ([][]string, error) {
	rows, err := c.Conn.QueryContext(context.Background(), q, args...)
	if err != nil {
		return nil, err
	}
	defer rows.Close()
	cols, err := rows.Columns()
	if err != nil {
		return nil, err
	}
	out := [][]string{}
	for rows.Next() {
		vals := make([]interface{}, len(cols))
		ptrs := make([]interface{}, len(cols))
		for i := range vals {
			ptrs[i] = &vals[i]
		}
		if err := rows.Scan(ptrs...); err != nil {
			return nil, err
		}
		row := make([]string, len(cols))
		for i, v := range vals {
			row[i] = Canon(v)
		}
		out = append(out, row)
	}
	if err := rows.Err(); err != nil {
		return nil, err
	}
	return out, nil
}

// Canon renders a driver value as a typed, bit-exact string.
func Canon(v interface{}) string {
	switch x := v.(type) {
	case nil:
		return "null"
	case int64:
		return fmt.Sprintf("i:%d", x)
	case float64:
		return fmt.Sprintf("r:%x", mathFloat64bits(x))
	case string:
		return fmt.Sprintf("t:%q", x)
	case []byte:
		return fmt.Sprintf("b:%x", x)
	case bool:
		if x {
			return "i:1"
		}
		return "i:0"
	case time.Time:
		return "time:" + x.Format(time.RFC3339Nano)
	}
	return fmt.Sprintf("?%T:%v", v, v)
}

func RowsString(rows [][]string) string {
	parts := make([]string, len(rows))
	for i, r := range rows {
		parts[i] = strings.Join(r, ",")
	}
	return "[" + strings.Join(parts, " | ") + "]"
}

func SortRows(rows [][]string) [][]string {
	out := append([][]string(nil), rows...)
	sort.Slice(out, func(i, j int) bool { return strings.Join(out[i], "\x00") < strings.Join(out[j], "\x00") })
	return out
}

// TableName returns a process-unique SQL name (the table registry of s3db is
// process-wide and keyed by name).
func (w *World) TableName(base string) string {
	w.mu.Lock()
	defer w.mu.Unlock()
	w.tableSeq++
	return fmt.Sprintf("r%d_%s_%d", atomic.LoadInt64(&runCtr), base, w.tableSeq)
}

type TableOpts struct {
	Prefix   string
	Columns  string
	EPN      int // entries_per_node, 0 = default
	Cache    int // node_cache_entries (decimal meaning; rendered so that s3db's base-32 parse yields it), 0 = none
	ReadOnly bool
}

func base32(n int) string {
	const digits = "0123456789abcdefghijklmnopqrstuv"
	if n == 0 {
		return "0"
	}
	for ; ; n++ {
		s := ""
		for m := n; m > 0; m /= 32 {
			s = string(digits[m%32]) + s
		}
		// the value is an unquoted module argument: "1u" (62) is not an SQL token, "20" and "v8" are;
		// such sizes (shrunk programs only) are rounded up to the next one that can be written
		if s[0] > '9' || strings.Trim(s, "0123456789") == "" {
			return s
		}
	}
}

// CreateSQL renders CREATE VIRTUAL TABLE for an s3db table bound to this client.
func (c *Client) CreateSQL(name string, o TableOpts) string {
	q := fmt.Sprintf("CREATE VIRTUAL TABLE %s USING s3db (s3_bucket='simbucket', s3_endpoint='sim://%s', s3_prefix='%s', columns='%s'",
		name, c.Name, o.Prefix, o.Columns)
	if o.EPN > 0 {
		q += fmt.Sprintf(", entries_per_node=%d", o.EPN)
	}
	if o.Cache > 0 {
		q += fmt.Sprintf(", node_cache_entries=%s", base32(o.Cache))
	}
	if o.ReadOnly {
		q += ", readonly"
	}
	return q + ")"
}

var panicNoise = regexp.MustCompile(`0x[0-9a-f]+|[0-9]+`)

// PanicClass names a panic by its message (numbers removed), so that two
// different panics are two different violation classes.
func PanicClass(p interface{}) string {
	msg := panicNoise.ReplaceAllString(fmt.Sprint(p), "N")
	if len(msg) > 70 {
		msg = msg[:70]
	}
	return "panic: " + msg
}
