package sim

// Shared multi-writer SQL driver: k clients on one bucket prefix run scripted
// statements (explicit write times), refresh from each other, re-open, and the
// harness keeps the version catalogue (O-cat) that maps every version object
// to the set of accepted statements it contains.

import (
	"encoding/json"
	"fmt"
	"math/rand/v2"
	"sort"
	"strings"
	"sync"
	"time"
)

var T0 = time.Date(2000, 1, 1, 0, 0, 0, 0, time.UTC)

const wtLayout = "2006-01-02 15:04:05.000000000"

func FmtTime(t time.Time) string { return t.UTC().Format(wtLayout) }

type MWOp struct {
	Op   string         `json:"op"` // insert update delete begin commit rollback refresh reopen advance
	ID   int            `json:"id,omitempty"`
	Key  int            `json:"key,omitempty"`
	Set  map[string]int `json:"set,omitempty"`  // column -> value (ints; unique per statement)
	WT   int64          `json:"wt,omitempty"`   // ns after T0; 0 = connection default
	Dur  int64          `json:"dur,omitempty"`  // advance: ns
	Null []string       `json:"null,omitempty"` // columns explicitly set to NULL
}

type MWParams struct {
	EPN             int          `json:"epn"`
	Cache           int          `json:"cache"`
	Cols            []string     `json:"cols"` // non-key columns
	Scripts         [][]MWOp     `json:"scripts"`
	Policy          string       `json:"policy"`
	Inter           int          `json:"inter"` // intermediate read-write openers launched while writers run
	Perm            bool         `json:"perm"`  // permute merge order at opens
	Faults          []*FaultSpec `json:"faults,omitempty"`
	Skew            []int64      `json:"skew,omitempty"` // per writer (script index): its wall clock runs this many ns ahead (+) or behind (-)
	Readers         int          `json:"readers"`
	ViewAfterCommit bool         `json:"view_after_commit,omitempty"` // record (versions, rows) after every commit
}

// Valid checks the preconditions of the quantifier: statements have
// pairwise distinct write times (a repeated ID is a byte-identical retry).
func (p *MWParams) Valid() bool {
	if p.EPN == 1 || p.EPN < 0 || p.Cache < 0 {
		return false // entries_per_node=1 is outside the quantified range (2..4096); mast's integer layer function does not terminate for it
	}
	if len(p.Cols) == 0 || len(p.Scripts) == 0 || len(p.Scripts) > 6 || p.Inter > 4 || p.Readers < 1 || p.Readers > 4 || len(p.Skew) > len(p.Scripts) {
		return false
	}
	for _, d := range p.Skew {
		if d < -int64(24*time.Hour) || d > int64(24*time.Hour) {
			return false
		}
	}
	seenCol := map[string]bool{"k": true}
	for _, c := range p.Cols {
		if seenCol[c] || c == "" {
			return false
		}
		seenCol[c] = true
	}
	byID := map[int]string{}
	byWT := map[int64]int{}
	for _, sc := range p.Scripts {
		for _, op := range sc {
			switch op.Op {
			case "insert", "update", "delete":
				if op.ID <= 0 || op.WT <= 0 {
					return false
				}
				b, _ := json.Marshal(op)
				if prev, ok := byID[op.ID]; ok && prev != string(b) {
					return false
				}
				byID[op.ID] = string(b)
				if id, ok := byWT[op.WT]; ok && id != op.ID {
					return false
				}
				byWT[op.WT] = op.ID
				for c := range op.Set {
					if !seenCol[c] || c == "k" {
						return false
					}
				}
				for _, c := range op.Null {
					if !seenCol[c] || c == "k" {
						return false
					}
				}
			}
		}
	}
	return true
}

func (p *MWParams) AllCols() []string { return append([]string{"k"}, p.Cols...) }

type MWView struct {
	Client   string
	At       int // event seq
	Versions []string
	Rows     [][]string
	Pending  []int // IDs of own uncommitted accepted statements included in Rows
	Label    string
}

type MWRun struct {
	P        *MWParams
	W        *World
	X        *Exec
	Lay      Layout
	Accepted map[int]MStmt        // by statement ID (retries share the ID of the original)
	Own      map[string][]int     // version name -> IDs of statements committed by it
	VerObj   map[string]*RootInfo // every version object ever PUT
	Views    []MWView
	Tables   map[string]string
	Errs     []string
	// StmtStart: for every version object, what the committing client's clock showed when the statement
	// (or open, or refresh) that published it was issued: a lower bound of the version's creation time
	StmtStart   map[string]time.Time
	curStart    map[string]time.Time
	startMu     sync.Mutex
	AfterCommit func(c *Client, version string) // called on the client's goroutine after every acknowledged commit
	NoopWrote   []string                        // statements that changed nothing but still wrote objects
}

// versionWatcher records every version object PUT under current/.
func (m *MWRun) observe(ev *Event, req *Request, before []byte, existed bool) {
	if req.Op == OpPut && strings.HasPrefix(req.Key, m.Lay.Current) && ev.Applied {
		name := strings.TrimPrefix(req.Key, m.Lay.Current)
		if r, err := DecodeRoot(name, req.Body); err == nil {
			m.VerObj[name] = r
		}
		m.startMu.Lock()
		if t, ok := m.curStart[req.H.Client]; ok {
			if _, seen := m.StmtStart[name]; !seen {
				m.StmtStart[name] = t
			}
		}
		m.startMu.Unlock()
	}
}

// BeginStmt notes that the client is about to issue a statement (call before it, on the client's goroutine).
func (m *MWRun) BeginStmt(c *Client) {
	t := m.W.WallClock(c.Name)
	m.startMu.Lock()
	m.curStart[c.Name] = t
	m.startMu.Unlock()
}

// StmtSet returns the IDs of all accepted statements contained in the given versions.
func (m *MWRun) StmtSet(versions []string) map[int]bool {
	out := map[int]bool{}
	seen := map[string]bool{}
	var rec func(v string)
	rec = func(v string) {
		if seen[v] {
			return
		}
		seen[v] = true
		for _, id := range m.Own[v] {
			out[id] = true
		}
		if r := m.VerObj[v]; r != nil {
			for _, p := range r.Parents {
				rec(p)
			}
		}
	}
	for _, v := range versions {
		rec(v)
	}
	return out
}

func (m *MWRun) Model(ids map[int]bool) map[string][]string {
	var ss []MStmt
	for id := range ids {
		if s, ok := m.Accepted[id]; ok {
			ss = append(ss, s)
		}
	}
	sort.Slice(ss, func(i, j int) bool { return ss[i].ID < ss[j].ID })
	return ModelRows(ss, m.P.AllCols(), 0)
}

func setKey(ids map[int]bool) string {
	var s []int
	for id := range ids {
		s = append(s, id)
	}
	sort.Ints(s)
	return fmt.Sprint(s)
}

func parseVersions(rows [][]string) []string {
	if len(rows) != 1 || len(rows[0]) != 1 {
		return nil
	}
	s := rows[0][0]
	if !strings.HasPrefix(s, "t:") {
		return nil
	}
	var un string
	if _, err := fmt.Sscanf(s[2:], "%q", &un); err != nil {
		return nil
	}
	var out []string
	if json.Unmarshal([]byte(un), &out) != nil {
		return nil
	}
	return out
}

// Versions asks s3db_version() on the client's connection.
func (c *Client) Versions(table string) ([]string, error) {
	rows, err := c.Query("select s3db_version(?)", table)
	if err != nil {
		return nil, err
	}
	return parseVersions(rows), nil
}

func (c *Client) SetWriteTime(ns int64) error {
	if ns == 0 {
		_, err := c.Exec("update s3db_conn set write_time=NULL")
		return err
	}
	_, err := c.Exec("update s3db_conn set write_time=?", FmtTime(T0.Add(time.Duration(ns))))
	return err
}

func NewMWRun(x *Exec, w *World, p *MWParams) *MWRun {
	for i, d := range p.Skew {
		if d != 0 {
			w.SetSkew(fmt.Sprintf("c%d", i), time.Duration(d))
		}
	}
	m := &MWRun{P: p, W: w, X: x, Lay: TableLayout("p"), Accepted: map[int]MStmt{}, Own: map[string][]int{},
		VerObj: map[string]*RootInfo{}, Tables: map[string]string{}, StmtStart: map[string]time.Time{}, curStart: map[string]time.Time{}}
	prev := w.S.Observer
	w.S.Observer = func(ev *Event, req *Request, before []byte, existed bool) {
		if prev != nil {
			prev(ev, req, before, existed)
		}
		m.observe(ev, req, before, existed)
	}
	return m
}

func (m *MWRun) tableOpts(ro bool) TableOpts {
	return TableOpts{Prefix: "p", Columns: "k primary key, " + strings.Join(m.P.Cols, ", "), EPN: m.P.EPN, Cache: m.P.Cache, ReadOnly: ro}
}

// OpenTable creates the client's table (an open of the shared prefix).
func (m *MWRun) OpenTable(c *Client, ro bool) error {
	name := m.W.TableName(c.Name)
	m.BeginStmt(c)
	_, err := c.Exec(c.CreateSQL(name, m.tableOpts(ro)))
	if err == nil {
		m.Tables[c.Name] = name
	}
	return err
}

func (m *MWRun) DropTable(c *Client) {
	if n, ok := m.Tables[c.Name]; ok {
		c.Exec("drop table " + n)
		delete(m.Tables, c.Name)
	}
}

// View records what the client sees now. pending = own accepted statements not yet committed.
func (m *MWRun) View(c *Client, label string, pending []int) *MWView {
	t := m.Tables[c.Name]
	rows, err := c.Query("select * from " + t)
	if err != nil {
		m.Errs = append(m.Errs, fmt.Sprintf("%s %s: select: %v", c.Name, label, err))
		return nil
	}
	var vers []string
	if len(pending) == 0 {
		vers, err = c.Versions(t)
		if err != nil {
			m.Errs = append(m.Errs, fmt.Sprintf("%s %s: s3db_version: %v", c.Name, label, err))
			return nil
		}
	}
	v := MWView{Client: c.Name, At: len(m.W.S.Log), Versions: vers, Rows: rows, Pending: append([]int(nil), pending...), Label: label}
	m.Views = append(m.Views, v)
	return &m.Views[len(m.Views)-1]
}

// RunScript executes one client's script. Called on the client's goroutine.
func (m *MWRun) RunScript(c *Client, script []MWOp) {
	t := m.Tables[c.Name]
	var txn []int // accepted statement IDs in the open explicit transaction
	inTxn := false
	var curWT int64 = -1
	commitOwn := func(ids []int) {
		if len(ids) == 0 {
			return
		}
		vers, err := c.Versions(t)
		if err != nil || len(vers) != 1 {
			m.Errs = append(m.Errs, fmt.Sprintf("%s: after commit s3db_version = %v, %v", c.Name, vers, err))
			return
		}
		m.Own[vers[0]] = append(m.Own[vers[0]], ids...)
		if m.P.ViewAfterCommit {
			m.View(c, "commit", nil)
		}
		if m.AfterCommit != nil {
			m.AfterCommit(c, vers[0])
		}
	}
	noop := func(what string, f func() error) {
		before := len(m.W.S.Mut)
		if err := f(); err != nil {
			m.Errs = append(m.Errs, fmt.Sprintf("%s: %s: %v", c.Name, what, err))
			return
		}
		if mine := m.W.S.MutBy(c.Name, before); len(mine) != 0 {
			m.NoopWrote = append(m.NoopWrote, fmt.Sprintf("%s: %s wrote %v", c.Name, what, mutKeys(mine)))
		}
		m.X.Probe("noop-statement-checked")
	}
	for _, op := range script {
		if op.Op == "advance" {
			c.Step(fmt.Sprintf("advance:%d", op.Dur)) // the scheduler sleeps before releasing this step
			continue
		}
		c.Step(op.Op)
		m.BeginStmt(c)
		switch op.Op {
		case "advance":
		case "begin":
			if !inTxn {
				if _, err := c.Exec("BEGIN"); err == nil {
					inTxn = true
					txn = nil
				}
			}
		case "commit":
			if inTxn {
				_, err := c.Exec("COMMIT")
				inTxn = false
				if err != nil {
					c.Exec("ROLLBACK")
					m.Errs = append(m.Errs, fmt.Sprintf("%s: commit: %v", c.Name, err))
				} else {
					commitOwn(txn)
				}
				txn = nil
			}
		case "rollback":
			if inTxn {
				c.Exec("ROLLBACK")
				inTxn = false
				txn = nil
			}
		case "refresh":
			if !inTxn {
				if _, err := c.Query("select s3db_refresh(?)", t); err != nil {
					m.Errs = append(m.Errs, fmt.Sprintf("%s: refresh: %v", c.Name, err))
				}
				m.View(c, "refresh", nil)
			}
		case "reopen":
			if !inTxn {
				m.DropTable(c)
				if err := m.OpenTable(c, false); err != nil {
					m.Errs = append(m.Errs, fmt.Sprintf("%s: reopen: %v", c.Name, err))
					return
				}
				t = m.Tables[c.Name]
				m.View(c, "reopen", nil)
			}
		case "view":
			m.View(c, "view", txn)
		case "noop-update":
			if !inTxn {
				noop("UPDATE matching no row", func() error {
					_, err := c.Exec(fmt.Sprintf("update %s set %s=1 where k=?", t, m.P.Cols[0]), -987654)
					return err
				})
			}
		case "noop-delete":
			if !inTxn {
				noop("DELETE matching no row", func() error { _, err := c.Exec(fmt.Sprintf("delete from %s where k=?", t), -987654); return err })
			}
		case "noop-txn":
			if !inTxn {
				noop("empty transaction", func() error {
					if _, err := c.Exec("BEGIN"); err != nil {
						return err
					}
					if _, err := c.Query("select count(*) from " + t); err != nil {
						return err
					}
					_, err := c.Exec("COMMIT")
					return err
				})
			}
		case "noop-refresh":
			// only meaningful when no other client can have committed in between
			if !inTxn && len(m.P.Scripts) == 1 && m.P.Inter == 0 {
				noop("refresh with nothing new", func() error { _, err := c.Query("select s3db_refresh(?)", t); return err })
			}
		case "insert", "update", "delete":
			if op.WT != curWT {
				if err := c.SetWriteTime(op.WT); err != nil {
					m.Errs = append(m.Errs, fmt.Sprintf("%s: set write_time: %v", c.Name, err))
					continue
				}
				curWT = op.WT
			}
			st := MStmt{ID: op.ID, Kind: op.Op, Key: fmt.Sprintf("i:%d", op.Key), WT: T0.Add(time.Duration(op.WT)).UnixNano(), Cols: map[string]string{}}
			var n int64
			var err error
			switch op.Op {
			case "insert":
				names := []string{"k"}
				ph := []string{"?"}
				args := []interface{}{op.Key}
				for _, col := range m.P.Cols {
					st.Cols[col] = "null"
				}
				for _, col := range sortedKeys(op.Set) {
					names = append(names, col)
					ph = append(ph, "?")
					args = append(args, op.Set[col])
					st.Cols[col] = fmt.Sprintf("i:%d", op.Set[col])
				}
				n, err = c.Exec(fmt.Sprintf("insert into %s(%s) values (%s)", t, strings.Join(names, ","), strings.Join(ph, ",")), args...)
			case "update":
				var sets []string
				var args []interface{}
				for _, col := range sortedKeys(op.Set) {
					sets = append(sets, col+"=?")
					args = append(args, op.Set[col])
					st.Cols[col] = fmt.Sprintf("i:%d", op.Set[col])
				}
				for _, col := range op.Null {
					sets = append(sets, col+"=NULL")
					st.Cols[col] = "null"
				}
				if len(sets) == 0 {
					continue
				}
				args = append(args, op.Key)
				n, err = c.Exec(fmt.Sprintf("update %s set %s where k=?", t, strings.Join(sets, ",")), args...)
			case "delete":
				n, err = c.Exec(fmt.Sprintf("delete from %s where k=?", t), op.Key)
			}
			if err != nil {
				if !isConstraint(err) {
					m.Errs = append(m.Errs, fmt.Sprintf("%s: %s #%d: %v", c.Name, op.Op, op.ID, err))
				}
				continue
			}
			if n == 0 {
				continue // touched no row: not an accepted statement
			}
			if prev, ok := m.Accepted[op.ID]; ok {
				// a retry: must be byte-identical to the original
				if prev.String() != st.String() {
					m.Errs = append(m.Errs, fmt.Sprintf("retry #%d differs from original", op.ID))
				}
			}
			m.Accepted[op.ID] = st
			if inTxn {
				txn = append(txn, op.ID)
			} else {
				commitOwn([]int{op.ID})
			}
		}
	}
	if inTxn {
		if _, err := c.Exec("COMMIT"); err != nil {
			c.Exec("ROLLBACK")
			m.Errs = append(m.Errs, fmt.Sprintf("%s: final commit: %v", c.Name, err))
		} else {
			commitOwn(txn)
		}
	}
}

func sortedKeys(m map[string]int) []string {
	var ks []string
	for k := range m {
		ks = append(ks, k)
	}
	sort.Strings(ks)
	return ks
}

func isConstraint(err error) bool {
	return err != nil && strings.Contains(strings.ToLower(err.Error()), "constraint")
}

// ---- generation ----

type MWGenOpts struct {
	MaxClients, MaxStmts, MaxKeys, MaxCols int
	Retries                                bool // insert verbatim retries of earlier statements
	Decreasing                             bool // write times may decrease on one writer
	Txns                                   bool
	Noops                                  bool
	Advance                                bool // advance the clock between statements (version creation times differ)
	Skew                                   bool // half of the runs give every writer its own clock offset
}

func GenMW(r *rand.Rand, o MWGenOpts) *MWParams {
	p := &MWParams{}
	p.EPN = []int{2, 2, 3, 4, 8, 64, 0}[r.IntN(7)]
	p.Cache = []int{0, 0, 1, 4, 1000}[r.IntN(5)]
	ncols := 1 + r.IntN(o.MaxCols)
	for i := 0; i < ncols; i++ {
		p.Cols = append(p.Cols, string(rune('a'+i)))
	}
	nclients := 1 + r.IntN(o.MaxClients)
	nkeys := 1 + r.IntN(o.MaxKeys)
	nst := 2 + r.IntN(o.MaxStmts-1)
	p.Policy = []string{"random", "sticky", "sticky"}[r.IntN(3)]
	p.Scripts = make([][]MWOp, nclients)
	// distinct write times: a random permutation of 1..nst seconds (plus sub-second noise), or increasing
	wts := make([]int64, nst)
	for i := range wts {
		wts[i] = int64(i+1)*int64(time.Second) + int64(r.IntN(1000))*1000
	}
	mode := r.IntN(3)
	if !o.Decreasing {
		mode = 0
	}
	if mode == 1 {
		r.Shuffle(len(wts), func(i, j int) { wts[i], wts[j] = wts[j], wts[i] })
	} else if mode == 2 {
		// mostly increasing with a few swaps
		for k := 0; k < 1+nst/4; k++ {
			i, j := r.IntN(nst), r.IntN(nst)
			wts[i], wts[j] = wts[j], wts[i]
		}
	}
	keys := make([]int, nkeys)
	for i := range keys {
		if r.IntN(2) == 0 && p.EPN > 0 {
			keys[i] = (1 + r.IntN(6)) * p.EPN * []int{1, 1, p.EPN}[r.IntN(3)]
		} else {
			keys[i] = 1 + r.IntN(40)
		}
	}
	inTxn := make([]bool, nclients)
	var made []struct {
		c  int
		op MWOp
	}
	for i := 0; i < nst; i++ {
		c := r.IntN(nclients)
		id := i + 1
		op := MWOp{ID: id, Key: keys[r.IntN(nkeys)], WT: wts[i]}
		switch k := r.IntN(10); {
		case k < 4:
			op.Op = "insert"
			op.Set = map[string]int{}
			for ci, col := range p.Cols {
				if r.IntN(4) != 0 {
					op.Set[col] = genVal(r, id, ci)
				}
			}
		case k < 8:
			op.Op = "update"
			op.Set = map[string]int{}
			for ci, col := range p.Cols {
				if r.IntN(2) == 0 {
					op.Set[col] = genVal(r, id, ci)
				}
			}
			if len(op.Set) == 0 {
				op.Set[p.Cols[r.IntN(ncols)]] = genVal(r, id, 0)
			}
		default:
			op.Op = "delete"
		}
		if o.Txns && !inTxn[c] && r.IntN(4) == 0 {
			p.Scripts[c] = append(p.Scripts[c], MWOp{Op: "begin"})
			inTxn[c] = true
		}
		p.Scripts[c] = append(p.Scripts[c], op)
		made = append(made, struct {
			c  int
			op MWOp
		}{c, op})
		if o.Retries && r.IntN(6) == 0 {
			// verbatim retry of an earlier statement, on any writer
			m := made[r.IntN(len(made))]
			rc := r.IntN(nclients)
			p.Scripts[rc] = append(p.Scripts[rc], m.op)
		}
		if inTxn[c] && r.IntN(3) == 0 {
			p.Scripts[c] = append(p.Scripts[c], MWOp{Op: "commit"})
			inTxn[c] = false
		}
		if o.Advance && r.IntN(2) == 0 {
			p.Scripts[c] = append(p.Scripts[c], MWOp{Op: "advance", Dur: []int64{1, 1e6, 1e9, 3e9, 60e9, 3600e9}[r.IntN(6)]})
		}
		if o.Noops && !inTxn[c] && r.IntN(4) == 0 {
			p.Scripts[c] = append(p.Scripts[c], MWOp{Op: []string{"noop-update", "noop-delete", "noop-txn", "noop-refresh"}[r.IntN(4)]})
		}
		if !inTxn[c] {
			switch r.IntN(8) {
			case 0:
				p.Scripts[c] = append(p.Scripts[c], MWOp{Op: "refresh"})
			case 1:
				p.Scripts[c] = append(p.Scripts[c], MWOp{Op: "reopen"})
			}
		}
	}
	for c := range p.Scripts {
		if inTxn[c] {
			p.Scripts[c] = append(p.Scripts[c], MWOp{Op: "commit"})
		}
	}
	p.Inter = r.IntN(3)
	p.Perm = r.IntN(3) != 0
	p.Readers = 2 + r.IntN(2)
	if o.Skew && r.IntN(2) == 0 {
		// (drawn last, and only on request, so that the other families' programs stay what they were)
		for range p.Scripts {
			p.Skew = append(p.Skew, []int64{0, 1, -1, int64(time.Millisecond), -int64(time.Second), int64(time.Second), 5 * int64(time.Second), -int64(time.Hour), int64(time.Hour)}[r.IntN(9)])
		}
	}
	return p
}

// genVal: mostly a value unique to the statement (so a mismatch names the statement that won), but a third of
// the time one of three small values, so that statements also assign a column the value it already holds.
func genVal(r *rand.Rand, id, ci int) int {
	if r.IntN(3) == 0 {
		return r.IntN(3)
	}
	return id*10 + ci
}
