package sim

// C06 / C07 / C08: single-writer behaviour against a native SQLite twin.
// Every statement is executed on the s3db table and on a native WITHOUT ROWID
// table with the same columns in the same connection; outcomes (ok / primary
// key / not null / other) and result sets are compared. This is the
// fault-free use of the simulator: injected store, configuration swarm
// (entries_per_node, node cache), re-open events, shrinking and replay.

import (
	"encoding/hex"
	"errors"
	"fmt"
	"math"
	"math/rand/v2"
	"sort"
	"strings"
	"time"

	sqlite3 "github.com/mattn/go-sqlite3"
)

// TV is a typed SQLite value in a program.
type TV struct {
	T string `json:"t"` // n i r s b
	I int64  `json:"i,omitempty"`
	R uint64 `json:"r,omitempty"` // float64 bits
	S string `json:"s,omitempty"`
	B string `json:"b,omitempty"` // hex
}

func (v TV) Arg() interface{} {
	switch v.T {
	case "i":
		return v.I
	case "r":
		return math.Float64frombits(v.R)
	case "s":
		return v.S
	case "b":
		b, _ := hex.DecodeString(v.B)
		if b == nil {
			b = []byte{}
		}
		return b
	}
	return nil
}

func tvI(i int64) TV           { return TV{T: "i", I: i} }
func tvR(f float64) TV         { return TV{T: "r", R: math.Float64bits(f)} }
func tvS(s string) TV          { return TV{T: "s", S: s} }
func tvB(b []byte) TV          { return TV{T: "b", B: hex.EncodeToString(b)} }
func tvNull() TV               { return TV{T: "n"} }
func (v TV) isEmptyText() bool { return v.T == "s" && v.S == "" }

type TwinStep struct {
	Kind string `json:"kind"`          // write query reopen refresh peer vacuum begin commit rollback
	SQL  string `json:"sql,omitempty"` // {T} = table
	Args []TV   `json:"args,omitempty"`
	Ord  bool   `json:"ord,omitempty"` // query result is ordered (compare as sequence)
	Cut  int64  `json:"cut,omitempty"` // vacuum: ns after T0
}

type TwinParams struct {
	EPN   int        `json:"epn"`
	Cache int        `json:"cache"`
	Cols  []string   `json:"cols"`
	Steps []TwinStep `json:"steps"`
	Focus string     `json:"focus"`
}

func dropEmptyText(in []TV) []TV {
	var out []TV
	for _, v := range in {
		if !v.isEmptyText() {
			out = append(out, v)
		}
	}
	return out
}

func keyPool(r *rand.Rand, epn int, focus string) []TV {
	if epn < 2 {
		epn = 4096
	}
	e := int64(epn)
	ints := []int64{0, 1, -1, 2, 3, 4, 5, 6, 7, 8, 9, 10, 12, 16, e, 2 * e, 3 * e, e * e, 2 * e * e, -e, e - 1, e + 1}
	pool := []TV{}
	for _, i := range ints {
		pool = append(pool, tvI(i))
	}
	if focus != "plain" {
		for _, i := range []int64{1 << 53, 1<<53 + 1, 1<<53 - 1, -(1 << 53), -(1<<53 + 1), math.MaxInt64, math.MinInt64, math.MaxInt64 - 1, 1 << 62} {
			pool = append(pool, tvI(i))
		}
		for _, f := range []float64{0.5, 1.5, -0.5, 2.5, 1e10, 1e300, -1e300, math.Inf(1), math.Inf(-1), 5e-324, 9007199254740994.0, 1.8446744073709552e19, -9.223372036854776e18, 3.14} {
			pool = append(pool, tvR(f))
		}
		// reals that are numerically equal to integers (one key with the integer for SQLite)
		// ... and the two zeros, equal to each other and to the integer 0
		for _, f := range []float64{0.0, math.Copysign(0, -1), 1.0, 2.0, 4.0, float64(e), 9007199254740992.0, 9.223372036854776e18, -9.223372036854776e18} {
			pool = append(pool, tvR(f))
		}
		for _, s := range []string{"", "a", "ab", "abc", "b", "B", "é", "1", "1.0", " ", "a\x00b", "zz", strings.Repeat("x", 40)} {
			pool = append(pool, tvS(s))
		}
		for _, b := range [][]byte{{0}, {0x61}, {0x61, 0x62}, {0xff}, {0x80}, {0, 0}, {1, 2, 3}} {
			pool = append(pool, tvB(b))
		}
		pool = append(pool, tvNull())
	}
	return pool
}

func valPool() []TV {
	vs := []TV{tvNull(), tvI(0), tvI(1), tvI(-1), tvI(42), tvI(math.MaxInt64), tvI(math.MinInt64), tvI(1 << 53), tvI(1<<53 + 1),
		tvR(0.5), tvR(-2.25), tvR(1e308), tvR(5e-324), tvR(math.Inf(1)), tvR(math.Inf(-1)), tvR(1.0), tvR(3.0),
		tvS(""), tvS("x"), tvS("X"), tvS("x "), tvS("hello"), tvS("HELLO"), tvS("héllo ✓"), tvS("a\x00b"), tvS(strings.Repeat("long", 64)), tvS("1"), tvS(" "),
		tvB([]byte{}), tvB([]byte{0}), tvB([]byte{1, 2, 3}), tvB([]byte("bytes")), tvB(make([]byte, 300))}
	return vs
}

func genTwin(r *rand.Rand, focus string) *TwinParams {
	p := &TwinParams{Focus: focus}
	p.EPN = []int{2, 2, 3, 4, 8, 64, 4096, 0}[r.IntN(8)]
	if focus == "keys" {
		p.EPN = []int{2, 2, 3, 4, 5, 8}[r.IntN(6)]
	}
	p.Cache = []int{0, 0, 1, 4, 1000}[r.IntN(5)]
	ncols := 1 + r.IntN(3)
	for i := 0; i < ncols; i++ {
		p.Cols = append(p.Cols, string(rune('a'+i)))
	}
	kfocus := "all"
	if focus == "plain" || (focus == "sql" && r.IntN(2) == 0) {
		kfocus = "plain"
	}
	keys := keyPool(r, p.EPN, kfocus)
	withEmpty := r.IntN(10) == 0 // empty TEXT reads back as NULL (known finding KF-15): only a tenth of the runs go there
	if !withEmpty {
		keys = dropEmptyText(keys)
	}
	// a small working set so that statements collide
	nk := 3 + r.IntN(8)
	var ws []TV
	for i := 0; i < nk; i++ {
		ws = append(ws, keys[r.IntN(len(keys))])
	}
	vals := valPool()
	if !withEmpty {
		vals = dropEmptyText(vals)
	}
	if focus == "keys" || kfocus == "plain" && focus != "values" {
		vals = []TV{tvNull(), tvI(1), tvI(2), tvS("x"), tvR(0.5)}
	}
	key := func() TV { return ws[r.IntN(len(ws))] }
	anykey := func() TV {
		if r.IntN(4) == 0 {
			return keys[r.IntN(len(keys))]
		}
		return key()
	}
	val := func() TV { return vals[r.IntN(len(vals))] }
	n := 8 + r.IntN(30)
	inTxn := false
	add := func(s TwinStep) { p.Steps = append(p.Steps, s) }
	pred := func() (string, []TV) {
		switch r.IntN(15) {
		case 0:
			return "k = ?", []TV{anykey()}
		case 1:
			return "k < ?", []TV{anykey()}
		case 2:
			return "k <= ?", []TV{anykey()}
		case 3:
			return "k > ?", []TV{anykey()}
		case 4:
			return "k >= ?", []TV{anykey()}
		case 5:
			return "k BETWEEN ? AND ?", []TV{anykey(), anykey()}
		case 6:
			return "k IN (?, ?, ?)", []TV{anykey(), anykey(), anykey()}
		case 7:
			return "k > ? AND k <= ?", []TV{anykey(), anykey()}
		case 8:
			return "k >= ? AND k < ? AND k <> ?", []TV{anykey(), anykey(), anykey()}
		case 9:
			return p.Cols[0] + " IS NOT NULL AND k >= ?", []TV{anykey()}
		case 10:
			return "k = ? OR k = ?", []TV{anykey(), anykey()}
		case 11:
			// several bounds on the same side, often with the same operand: the window the
			// table derives from them must still be what SQLite means
			ops := []string{"<", "<=", ">", ">=", "="}
			n := 2 + r.IntN(2)
			a := anykey()
			var terms []string
			var args []TV
			for i := 0; i < n; i++ {
				terms = append(terms, "k "+ops[r.IntN(len(ops))]+" ?")
				if r.IntN(3) == 0 {
					a = anykey()
				}
				args = append(args, a)
			}
			return strings.Join(terms, " AND "), args
		case 13:
			// comparisons under a collation other than BINARY: rows that compare equal (or inside the range)
			// under it lie outside the binary window of the operand
			t := []TV{tvS("hello"), tvS("HELLO"), tvS("x"), tvS("X"), tvS("x "), tvS("Hello  "), tvS("1"), tvS(" ")}
			op := []string{"=", "<", "<=", ">", ">="}[r.IntN(5)]
			coll := []string{"NOCASE", "NOCASE", "RTRIM"}[r.IntN(3)]
			if r.IntN(2) == 0 {
				return "k " + op + " ? COLLATE " + coll, []TV{t[r.IntN(len(t))]}
			}
			return "k COLLATE " + coll + " " + op + " ?", []TV{t[r.IntN(len(t))]}
		case 12:
			// constraints on other columns next to the key constraints, before and after them: the table uses
			// only the key ones, and the numbering of the arguments it asks for must not depend on where they stand
			col := p.Cols[r.IntN(len(p.Cols))]
			nk := []string{col + " = ?", col + " >= ?", col + " < ?", col + " IS NULL", col + " IN (?, ?)"}[r.IntN(5)]
			var nargs []TV
			for i := 0; i < strings.Count(nk, "?"); i++ {
				nargs = append(nargs, val())
			}
			kp := []string{"k > ?", "k = ?", "k <= ?", "k BETWEEN ? AND ?", "k >= ? AND k < ?"}[r.IntN(5)]
			var kargs []TV
			for i := 0; i < strings.Count(kp, "?"); i++ {
				kargs = append(kargs, anykey())
			}
			switch r.IntN(3) {
			case 0:
				return nk + " AND " + kp, append(nargs, kargs...)
			case 1:
				return kp + " AND " + nk, append(kargs, nargs...)
			default:
				return "k < ? AND " + nk + " AND " + kp, append(append([]TV{anykey()}, nargs...), kargs...)
			}
		}
		return "1", nil
	}
	for i := 0; i < n; i++ {
		switch c := r.IntN(20); {
		case c < 6: // insert
			rows := 1
			if r.IntN(5) == 0 && !inTxn {
				rows = 2 + r.IntN(3)
			}
			// column list
			var cl []string
			for _, col := range p.Cols {
				if r.IntN(4) != 0 {
					cl = append(cl, col)
				}
			}
			names := append([]string{"k"}, cl...)
			var ph []string
			var args []TV
			for j := 0; j < rows; j++ {
				q := make([]string, len(names))
				for x := range q {
					q[x] = "?"
				}
				ph = append(ph, "("+strings.Join(q, ",")+")")
				args = append(args, anykey())
				for range cl {
					args = append(args, val())
				}
			}
			add(TwinStep{Kind: "write", SQL: fmt.Sprintf("INSERT INTO {T}(%s) VALUES %s", strings.Join(names, ","), strings.Join(ph, ",")), Args: args})
		case c < 9: // update
			col := p.Cols[r.IntN(len(p.Cols))]
			w, a := pred()
			if inTxn {
				w, a = "k = ?", []TV{key()}
			}
			if r.IntN(4) == 0 && len(p.Cols) > 1 {
				col2 := p.Cols[r.IntN(len(p.Cols))]
				if col2 != col {
					add(TwinStep{Kind: "write", SQL: fmt.Sprintf("UPDATE {T} SET %s = ?, %s = ? WHERE %s", col, col2, w), Args: append([]TV{val(), val()}, a...)})
					continue
				}
			}
			add(TwinStep{Kind: "write", SQL: fmt.Sprintf("UPDATE {T} SET %s = ? WHERE %s", col, w), Args: append([]TV{val()}, a...)})
		case c < 11: // delete
			w, a := pred()
			if inTxn {
				w, a = "k = ?", []TV{key()}
			}
			add(TwinStep{Kind: "write", SQL: "DELETE FROM {T} WHERE " + w, Args: a})
		case c < 16: // select
			w, a := pred()
			switch r.IntN(9) {
			case 7:
				// orderings with more than one term, and the clauses SQLite hands to a table the same way
				// (GROUP BY, DISTINCT); a key term makes the order total, so the results compare as sequences
				col := p.Cols[r.IntN(len(p.Cols))]
				tail := []string{"ORDER BY k, " + col, "ORDER BY " + col + ", k", "ORDER BY " + col + " DESC, k DESC", "ORDER BY k DESC, " + col}[r.IntN(4)]
				add(TwinStep{Kind: "query", SQL: "SELECT * FROM {T} WHERE " + w + " " + tail, Args: a, Ord: true})
			case 8:
				col := p.Cols[r.IntN(len(p.Cols))]
				q := []string{"SELECT " + col + ", count(*), min(k) FROM {T} WHERE " + w + " GROUP BY " + col + ", typeof(k)",
					"SELECT DISTINCT " + col + ", typeof(k) FROM {T} WHERE " + w,
					"SELECT k, " + col + " FROM {T} WHERE " + w + " GROUP BY k, " + col}[r.IntN(3)]
				add(TwinStep{Kind: "query", SQL: q, Args: a})
			case 0:
				add(TwinStep{Kind: "query", SQL: "SELECT * FROM {T} WHERE " + w + " ORDER BY k", Args: a, Ord: true})
			case 1:
				add(TwinStep{Kind: "query", SQL: "SELECT * FROM {T} WHERE " + w + " ORDER BY k DESC", Args: a, Ord: true})
			case 2:
				add(TwinStep{Kind: "query", SQL: fmt.Sprintf("SELECT * FROM {T} WHERE %s ORDER BY k LIMIT %d OFFSET %d", w, 1+r.IntN(4), r.IntN(3)), Args: a, Ord: true})
			case 3:
				add(TwinStep{Kind: "query", SQL: fmt.Sprintf("SELECT * FROM {T} WHERE %s ORDER BY k DESC LIMIT %d", w, 1+r.IntN(4)), Args: a, Ord: true})
			case 4:
				add(TwinStep{Kind: "query", SQL: "SELECT count(*), min(k), max(k), typeof(min(k)), typeof(max(k)) FROM {T} WHERE " + w, Args: a, Ord: true})
			case 5:
				add(TwinStep{Kind: "query", SQL: "SELECT k, typeof(k), " + p.Cols[0] + ", typeof(" + p.Cols[0] + "), hex(" + p.Cols[0] + ") FROM {T} WHERE " + w, Args: a})
			default:
				add(TwinStep{Kind: "query", SQL: "SELECT * FROM {T} WHERE " + w, Args: a})
			}
		case c < 17:
			if !inTxn {
				add(TwinStep{Kind: "reopen"})
			}
		case c < 18:
			if !inTxn {
				add(TwinStep{Kind: "refresh"})
			}
		case c < 19:
			// (values too: inside a transaction every statement carries one write time, so a column written
			// twice there - INSERT then UPDATE, or two UPDATEs - is decided by statement order alone, and the
			// later value must come back in value and storage class)
			if focus == "sql" || focus == "plain" || focus == "values" {
				if !inTxn {
					add(TwinStep{Kind: "begin"})
					inTxn = true
				} else {
					add(TwinStep{Kind: []string{"commit", "commit", "rollback"}[r.IntN(3)]})
					inTxn = false
				}
			}
		default:
			if focus == "values" && !inTxn {
				switch r.IntN(3) {
				case 2:
					// a value written to the KEY column of an existing row: the table does not move rows, so it
					// must refuse - also when the new value merely converts to the old one (1 -> '1', 1 -> 1.5,
					// 1 -> 4294967297, '7' -> 7), where it used to report success and store nothing
					k := key()
					nv := []TV{tvS("1"), tvR(1.5), tvI(4294967297), tvI(1), tvS("x"), tvNull(), tvB([]byte{0}), tvR(3.0), tvI(3), tvS("hello"), anykey()}[r.IntN(11)]
					add(TwinStep{Kind: "key-update", SQL: "UPDATE {T} SET k = ? WHERE k = ?", Args: []TV{nv, k}})
				case 0:
					// another writer touches other rows / other columns with a later write time
					col := p.Cols[r.IntN(len(p.Cols))]
					if c := r.IntN(3); c == 0 {
						add(TwinStep{Kind: "peer", SQL: fmt.Sprintf("UPDATE {T} SET %s = ? WHERE k = ?", col), Args: []TV{val(), key()}})
					} else if c == 1 {
						// a writer that has NOT seen the first writer's rows inserts one of its keys later,
						// mentioning only one column: after merging, the newer INSERT is the row (other columns NULL)
						add(TwinStep{Kind: "peer-blind", SQL: "INSERT INTO {T}(k," + col + ") VALUES (?,?)", Args: []TV{key(), val()}})
					} else {
						add(TwinStep{Kind: "peer", SQL: "INSERT INTO {T}(k," + col + ") VALUES (?,?)", Args: []TV{tvI(int64(500000 + i)), val()}})
					}
				case 1:
					add(TwinStep{Kind: "vacuum", Cut: []int64{0, 1, int64(time.Hour), int64(1000 * time.Hour)}[r.IntN(4)]})
				}
			}
		}
	}
	if inTxn {
		add(TwinStep{Kind: "commit"})
	}
	return p
}

func init() {
	Register(&Family{Property: "C06", Name: "twin-sql", Gen: func(r *rand.Rand, tier string) interface{} { return genTwin(r, "sql") }, Run: func(x *Exec) { runTwin(x, "C06") }})
	Register(&Family{Property: "C07", Name: "twin-keys", Gen: func(r *rand.Rand, tier string) interface{} { return genTwin(r, "keys") }, Run: func(x *Exec) { runTwin(x, "C07") }})
	Register(&Family{Property: "C08", Name: "twin-values", Gen: func(r *rand.Rand, tier string) interface{} { return genTwin(r, "values") }, Run: func(x *Exec) { runTwin(x, "C08") }})
}

func errClass(err error) string {
	if err == nil {
		return "ok"
	}
	var se sqlite3.Error
	if errors.As(err, &se) {
		switch se.ExtendedCode {
		case sqlite3.ErrConstraintPrimaryKey, sqlite3.ErrConstraintUnique:
			return "primarykey"
		case sqlite3.ErrConstraintNotNull:
			return "notnull"
		}
		if se.Code == sqlite3.ErrConstraint {
			return fmt.Sprintf("constraint-%d", se.ExtendedCode)
		}
	}
	return "error"
}

func runTwin(x *Exec, prop string) {
	var p TwinParams
	if !x.Params(&p) || p.EPN == 1 || p.EPN < 0 || p.Cache < 0 || len(p.Cols) == 0 || len(p.Cols) > 4 || len(p.Steps) > 80 {
		x.Invalid()
		return
	}
	seen := map[string]bool{"k": true}
	for _, c := range p.Cols {
		if seen[c] || len(c) != 1 || c[0] < 'a' || c[0] > 'd' {
			x.Invalid()
			return
		}
		seen[c] = true
	}
	x.Bubble(func(w *World) {
		c := w.NewClient("c0")
		peer := w.NewPassiveClient("peer")
		opts := TableOpts{Prefix: "p", Columns: "k primary key, " + strings.Join(p.Cols, ", "), EPN: p.EPN, Cache: p.Cache}
		var t, pt string
		var fatal error
		lay := TableLayout("p")
		w.Solo(c, func() {
			t = w.TableName("t")
			if _, fatal = c.Exec(c.CreateSQL(t, opts)); fatal != nil {
				return
			}
			_, fatal = c.Exec("CREATE TABLE n(k PRIMARY KEY, " + strings.Join(p.Cols, ", ") + ") WITHOUT ROWID")
		})
		if fatal != nil {
			x.Fail(prop+"-unexpected-error", "setup: %v", fatal)
			return
		}
		args := func(a []TV) []interface{} {
			out := make([]interface{}, len(a))
			for i, v := range a {
				out[i] = v.Arg()
			}
			return out
		}
		full := "SELECT k, typeof(k)"
		for _, col := range p.Cols {
			full += ", " + col + ", typeof(" + col + ")"
		}
		var failLate func(class, format string, a ...interface{})
		leakable := map[string]bool{} // keys inserted by transactions that were rolled back (known finding KF-14)
		var txnInserted []string
		compareAll := func(when string) bool {
			var rs, rn [][]string
			var es, en error
			rs, es = c.Query(full + " FROM " + t + " ORDER BY k")
			rn, en = c.Query(full + " FROM n ORDER BY k")
			x.Check()
			if es != nil || en != nil {
				failLate("-scan-failed", "%s: full scan: s3db err=%v native err=%v", when, es, en)
				return false
			}
			if RowsString(rs) != RowsString(rn) {
				sm, nm := RowsByKey(rs, 0), RowsByKey(rn, 0)
				leak := len(leakable) > 0
				for k, r := range nm {
					if strings.Join(sm[k], ",") != strings.Join(r, ",") {
						leak = false
					}
				}
				for k := range sm {
					if _, ok := nm[k]; !ok && !leakable[k] {
						leak = false
					}
				}
				if strings.Contains(RowsString(rn), `t:""`) && emptyTextOnly(rs, rn) {
					failLate("-emptytext", "%s: empty TEXT reads back as NULL: s3db table %s\nnative table %s", when, RowsString(rs), RowsString(rn))
					return false
				}
				if leak {
					failLate("-rollback-leak", "%s: rows inserted by a rolled-back transaction are visible again: s3db table %s\nnative table %s", when, RowsString(rs), RowsString(rn))
					return false
				}
				failLate("-table-differs", "%s: s3db table %s\nnative table %s", when, RowsString(rs), RowsString(rn))
				return false
			}
			return true
		}
		var blind *Client
		var bt string
		for _, st := range p.Steps {
			if st.Kind == "peer-blind" {
				blind = w.NewPassiveClient("blind")
				break
			}
		}
		if blind != nil {
			w.Solo(c, func() {
				blind.Open()
				bt = w.TableName("blind")
				bo := opts
				bo.Cache = 0
				if _, err := blind.Exec(blind.CreateSQL(bt, bo)); err != nil {
					fatal = err
				}
			})
			if fatal != nil {
				x.Fail(prop+"-unexpected-error", "blind writer open: %v", fatal)
				return
			}
		}
		nwrites, nreopen := 0, 0
		inTxn := false
		intreal := false // a REAL key numerically equal to an INTEGER key has been written (known finding KF-12)
		usedInts, usedReals := map[int64]bool{}, map[int64]bool{}
		posZero, negZero := false, false
		fail := func(class, format string, a ...interface{}) {
			if intreal {
				class += "-intreal"
			}
			x.Fail(prop+class, format, a...)
		}
		failLate = fail
		w.Solo(c, func() {
			for si, st := range p.Steps {
				if x.Failed() {
					return
				}
				c.Step("advance:1000")
				desc := fmt.Sprintf("step %d %s %s %v", si, st.Kind, st.SQL, tvString(st.Args))
				if st.Kind == "write" || st.Kind == "peer" || st.Kind == "peer-blind" {
					for _, kv := range keyOperands(st) {
						if kv.T == "i" {
							usedInts[kv.I] = true
						} else if integralReal(kv) {
							if f := math.Float64frombits(kv.R); f >= -9223372036854775808.0 && f < 9223372036854775808.0 {
								usedReals[int64(f)] = true
							}
							if kv.R == 0 {
								posZero = true
							} else if kv.R == 1<<63 {
								negZero = true
							}
						}
					}
					for i := range usedReals {
						if usedInts[i] {
							intreal = true
						}
					}
					if posZero && negZero {
						intreal = true // 0.0 and -0.0: equal keys with different bits, same finding (KF-12)
					}
				}
				switch st.Kind {
				case "write":
					if !strings.Contains(st.SQL, "{T}") {
						x.Invalid()
						return
					}
					if inTxn && !singleRowWrite(st.SQL) {
						continue // statement-level atomicity inside a transaction is not promised for virtual tables
					}
					_, es := c.Exec(strings.ReplaceAll(st.SQL, "{T}", t), args(st.Args)...)
					_, en := c.Exec(strings.ReplaceAll(st.SQL, "{T}", "n"), args(st.Args)...)
					x.Check()
					if errClass(es) != errClass(en) {
						fail("-outcome-differs", "%s: s3db outcome %q (%v), native outcome %q (%v)", desc, errClass(es), es, errClass(en), en)
						return
					}
					if es == nil {
						nwrites++
						if inTxn && strings.HasPrefix(st.SQL, "INSERT") {
							for _, kv := range keyOperands(st) {
								txnInserted = append(txnInserted, Canon(kv.Arg()))
							}
						}
					}
					if inTxn && es != nil {
						// a failed statement inside an explicit transaction: both sides keep the transaction open
					}
					if es != nil && multiRow(st.SQL) && !inTxn {
						// known finding KF-C06-partial: no statement journal for this virtual table
						var rs, rn [][]string
						rs, _ = c.Query(full + " FROM " + t + " ORDER BY k")
						rn, _ = c.Query(full + " FROM n ORDER BY k")
						if RowsString(rs) != RowsString(rn) {
							fail("-partial-statement", "%s failed (%v) part-way but rows written before the failure stay: s3db table %s\nnative table %s", desc, es, RowsString(rs), RowsString(rn))
							return
						}
					}
					if !compareAll("after " + desc) {
						return
					}
				case "query":
					if !strings.Contains(st.SQL, "{T}") {
						x.Invalid()
						return
					}
					rs, es := c.Query(strings.ReplaceAll(st.SQL, "{T}", t), args(st.Args)...)
					rn, en := c.Query(strings.ReplaceAll(st.SQL, "{T}", "n"), args(st.Args)...)
					x.Check()
					if errClass(es) != errClass(en) {
						fail("-outcome-differs", "%s: s3db outcome %v, native outcome %v", desc, es, en)
						return
					}
					if es != nil {
						continue
					}
					if !st.Ord {
						rs, rn = SortRows(rs), SortRows(rn)
					}
					if RowsString(rs) != RowsString(rn) {
						if strings.Contains(RowsString(rn), `t:""`) && emptyTextOnly(rs, rn) {
							fail("-emptytext", "%s: empty TEXT reads back as NULL:\ns3db   %s\nnative %s", desc, RowsString(rs), RowsString(rn))
							return
						}
						fail("-result-differs", "%s:\ns3db   %s\nnative %s", desc, RowsString(rs), RowsString(rn))
						return
					}
					x.ProbeN("query-with-rows", b2i(len(rs) > 0))
				case "begin":
					if !inTxn {
						if _, err := c.Exec("BEGIN"); err != nil {
							fail("-unexpected-error", "%s: %v", desc, err)
							return
						}
						inTxn = true
					}
				case "commit", "rollback":
					if inTxn {
						if _, err := c.Exec(strings.ToUpper(st.Kind)); err != nil {
							fail("-unexpected-error", "%s: %v", desc, err)
							return
						}
						inTxn = false
						if st.Kind == "rollback" {
							for _, k := range txnInserted {
								leakable[k] = true
							}
						}
						txnInserted = nil
						if !compareAll("after " + st.Kind) {
							return
						}
					}
				case "reopen":
					if inTxn {
						continue
					}
					if _, err := c.Exec("DROP TABLE " + t); err != nil {
						fail("-unexpected-error", "%s: drop: %v", desc, err)
						return
					}
					t = w.TableName("t")
					if _, err := c.Exec(c.CreateSQL(t, opts)); err != nil {
						fail("-reopen-failed", "%s: %v", desc, err)
						return
					}
					nreopen++
					if !compareAll("after re-open") {
						return
					}
				case "refresh":
					if inTxn {
						continue
					}
					if _, err := c.Query("select s3db_refresh(?)", t); err != nil {
						fail("-unexpected-error", "%s: %v", desc, err)
						return
					}
					if !compareAll("after refresh") {
						return
					}
				case "key-update":
					if inTxn || len(st.Args) != 2 {
						continue
					}
					// only when exactly one row matches and the new key differs bit for bit from the key that row has
					// (WHERE k = 1.0 finds the row keyed 1; assigning 1 to it changes nothing)
					hit, herr := c.Query("SELECT k FROM n WHERE k = ?", st.Args[1].Arg())
					if herr != nil || len(hit) != 1 || hit[0][0] == Canon(st.Args[0].Arg()) {
						continue
					}
					_, es := c.Exec("UPDATE "+t+" SET k = ? WHERE k = ?", args(st.Args)...)
					x.Check()
					if es == nil {
						fail("-key-update-accepted", "%s reported success on a table that cannot move a row to another key", desc)
						return
					}
					x.Probe("key-update-refused")
					if !compareAll("after refused " + desc) {
						return
					}
				case "peer":
					if inTxn || !strings.Contains(st.SQL, "{T}") {
						continue
					}
					// another process: own connection, own table handle, later write time; the
					// native twin receives the same statement; then the first writer refreshes
					if pt == "" {
						peer.Open()
						pt = w.TableName("peer")
						po := opts
						po.Cache = 0
						if _, err := peer.Exec(peer.CreateSQL(pt, po)); err != nil {
							fail("-unexpected-error", "peer open: %v", err)
							return
						}
					} else if _, err := peer.Query("select s3db_refresh(?)", pt); err != nil {
						fail("-unexpected-error", "peer refresh: %v", err)
						return
					}
					_, ep := peer.Exec(strings.ReplaceAll(st.SQL, "{T}", pt), args(st.Args)...)
					_, en := c.Exec(strings.ReplaceAll(st.SQL, "{T}", "n"), args(st.Args)...)
					x.Check()
					if errClass(ep) != errClass(en) {
						fail("-outcome-differs", "%s (peer): s3db outcome %v, native outcome %v", desc, ep, en)
						return
					}
					if _, err := c.Query("select s3db_refresh(?)", t); err != nil {
						fail("-unexpected-error", "refresh after peer write: %v", err)
						return
					}
					x.Probe("merged-peer-write")
					if !compareAll("after merging " + desc) {
						return
					}
				case "peer-blind":
					if inTxn || !strings.HasPrefix(st.SQL, "INSERT INTO {T}(k,") || len(st.Args) != 2 {
						continue
					}
					// a fresh writer on an EMPTY view of the prefix is not available (opening merges everything), so the
					// blind writer is one that opened before the first write of this run and never refreshed
					if blind == nil {
						continue
					}
					_, eb := blind.Exec(strings.ReplaceAll(st.SQL, "{T}", bt), args(st.Args)...)
					if eb != nil {
						continue // the blind writer already holds that key itself
					}
					// reference: the later INSERT replaces the row
					c.Exec("DELETE FROM n WHERE k = ?", st.Args[0].Arg())
					if _, en := c.Exec(strings.ReplaceAll(st.SQL, "{T}", "n"), args(st.Args)...); en != nil {
						fail("-unexpected-error", "%s: native: %v", desc, en)
						return
					}
					if _, err := c.Query("select s3db_refresh(?)", t); err != nil {
						fail("-unexpected-error", "refresh after blind peer insert: %v", err)
						return
					}
					x.Probe("merged-blind-peer-insert")
					if !compareAll("after merging " + desc) {
						return
					}
				case "vacuum":
					if inTxn {
						continue
					}
					c.Step(fmt.Sprintf("advance:%d", int64(2*time.Second)))
					cut := time.Now().Add(-time.Duration(st.Cut))
					rows, err := c.Query("select * from s3db_vacuum(?, ?)", t, FmtTime(cut)[:19])
					if err != nil || len(rows) != 1 || rows[0][0] != "null" {
						fail("-vacuum-failed", "%s: %v %s", desc, err, RowsString(rows))
						return
					}
					x.Probe("vacuumed")
					if !compareAll("after vacuum") {
						return
					}
					if blind != nil {
						// The vacuum may have purged delete markers. A writer that still holds the deleted rows
						// and has not refreshed since brings them back by design (the marker is what would have
						// stopped it): from here on the blind writer is blind only to what happens after the vacuum.
						if _, err := blind.Query("select s3db_refresh(?)", bt); err != nil {
							fail("-unexpected-error", "blind writer refresh after vacuum: %v", err)
							return
						}
					}
				}
			}
			if inTxn {
				c.Exec("COMMIT")
			}
			if x.Failed() {
				return
			}
			// the persisted tree itself: keys strictly increasing under an exact comparator
			cur, _ := lay.Versions(w.S.Bucket)
			for _, v := range cur {
				wt, err := lay.WalkVersion(w.S.Bucket, v)
				x.Check()
				if leaked := wt.UncountedLeak(leakable); err == nil && leaked != nil {
					fail("-rollback-leak", "version %s: entries written by a rolled-back transaction are stored in the committed tree uncounted (keys %v): %s", v, leaked, wt.Err())
					return
				}
				if err != nil || !wt.OK() {
					fail("-stored-tree", "version %s: %v %s", v, err, wt.Err())
					return
				}
				x.ProbeN("tree-height>=1", b2i(wt.MaxDepth >= 1))
				x.ProbeN("tree-height>=2", b2i(wt.MaxDepth >= 2))
			}
		})
		w.CheckPanics()
		if w.Viol != nil && strings.HasPrefix(w.Viol.Class, "panic: ") && intreal {
			w.Viol.Class += "-intreal"
		}
		x.Sig(LogHash(w.S.Log), len(p.Steps))
		if nwrites >= 3 {
			x.Nontrivial()
		}
		x.ProbeN("reopened", nreopen)
	})
}

// keyOperands returns the arguments of a step that are used as key values.
func keyOperands(st TwinStep) []TV {
	switch {
	case strings.HasPrefix(st.SQL, "INSERT"):
		i := strings.Index(st.SQL, "(")
		j := strings.Index(st.SQL, ")")
		if i < 0 || j < i {
			return st.Args
		}
		n := strings.Count(st.SQL[i:j], ",") + 1
		var out []TV
		for x := 0; x < len(st.Args); x += n {
			out = append(out, st.Args[x])
		}
		return out
	case strings.HasPrefix(st.SQL, "UPDATE"):
		i := strings.Index(st.SQL, "WHERE")
		if i < 0 {
			return nil
		}
		n := strings.Count(st.SQL[:i], "?")
		if n > len(st.Args) {
			return nil
		}
		return st.Args[n:]
	}
	return st.Args
}

func integralReal(v TV) bool {
	if v.T != "r" {
		return false
	}
	f := math.Float64frombits(v.R)
	return !math.IsInf(f, 0) && f == math.Trunc(f)
}

func multiRow(sql string) bool {
	if strings.HasPrefix(sql, "INSERT") {
		return strings.Count(sql, "(") > 2
	}
	return !strings.Contains(sql, "WHERE k = ?") || strings.Contains(sql, " OR ")
}

// emptyTextOnly: the two results have the same shape and differ only in cells
// where the native side holds an empty TEXT (or the typeof/hex of one) and
// the s3db side holds NULL.
func emptyTextOnly(s3, native [][]string) bool {
	if len(s3) != len(native) {
		return false
	}
	for i := range native {
		if len(s3[i]) != len(native[i]) {
			return false
		}
		for j := range native[i] {
			a, b := s3[i][j], native[i][j]
			if a == b {
				continue
			}
			switch {
			case b == `t:""` && a == "null":
			case b == `t:"text"` && a == `t:"null"` && j > 0 && native[i][j-1] == `t:""`:
			default:
				return false
			}
		}
	}
	return true
}

func singleRowWrite(sql string) bool {
	if strings.HasPrefix(sql, "INSERT") {
		return strings.Count(sql, "(") == 2 // column list + one VALUES tuple
	}
	return strings.Contains(sql, "WHERE k = ?") && !strings.Contains(sql, " OR ")
}

func tvString(a []TV) string {
	var s []string
	for _, v := range a {
		s = append(s, Canon(v.Arg()))
	}
	sort.Strings(nil)
	return "[" + strings.Join(s, " ") + "]"
}
