package sim

// Programs, families, execution, replay and shrinking.

import (
	"crypto/sha256"
	"encoding/hex"
	"encoding/json"
	"fmt"
	"math/rand/v2"
	"os"
	"runtime"
	"runtime/debug"
	"runtime/pprof"
	"sort"
	"strings"
	"sync/atomic"
	"testing"
	"testing/synctest"
	"time"
)

// Program is the replay file: everything a run depends on besides the code.
type Program struct {
	Property string          `json:"property"`
	Family   string          `json:"family"`
	Seed     uint64          `json:"seed"`
	Tier     string          `json:"tier,omitempty"`
	Params   json.RawMessage `json:"params"`
	Choices  []int           `json:"choices,omitempty"` // scheduler / permutation decisions, in order
	NoRng    bool            `json:"no_rng,omitempty"`  // decisions beyond Choices are 0 instead of seeded
	Expect   *Violation      `json:"expect,omitempty"`
	LogHash  string          `json:"log_hash,omitempty"`
}

type Result struct {
	Property   string         `json:"property"`
	Family     string         `json:"family"`
	Seed       uint64         `json:"seed"`
	Violation  *Violation     `json:"violation,omitempty"`
	Invalid    bool           `json:"invalid,omitempty"`
	LogHash    string         `json:"log_hash"`
	Events     int            `json:"events"`
	Steps      int            `json:"steps"`
	SimNs      int64          `json:"sim_ns"`
	Bubbles    int            `json:"bubbles"`
	Checks     int            `json:"checks"` // oracle evaluations
	Faults     map[string]int `json:"faults,omitempty"`
	Probes     map[string]int `json:"probes,omitempty"`
	Sig        string         `json:"sig"`
	Nontrivial bool           `json:"nontrivial"`
	Program    *Program       `json:"program,omitempty"`
	WallMs     int64          `json:"wall_ms"`
}

type Family struct {
	Property string
	Name     string
	// Gen draws the parameters of one run. tier is "quick" or "thorough".
	Gen func(r *rand.Rand, tier string) interface{}
	// Run executes a program. It is called outside any bubble and uses x.Bubble.
	Run func(x *Exec)
}

var families = map[string][]*Family{}

func Register(f *Family) { families[f.Property] = append(families[f.Property], f) }

func FindFamily(prop, name string) *Family {
	for _, f := range families[prop] {
		if f.Name == name {
			return f
		}
	}
	return nil
}

func Properties() []string {
	var ps []string
	for p := range families {
		ps = append(ps, p)
	}
	sort.Strings(ps)
	return ps
}

// Exec is the context of one program execution.
type Exec struct {
	T       *testing.T
	P       *Program
	Res     *Result
	rng     *rand.Rand
	choices []int
	ci      int
	Used    []int
	hash    strings.Builder
	sig     strings.Builder
	viol    *Violation
}

func NewRng(seed uint64, stream uint64) *rand.Rand {
	return rand.New(rand.NewPCG(seed, stream^0x9e3779b97f4a7c15))
}

// Params decodes the program parameters; a decoding failure marks the program invalid.
func (x *Exec) Params(v interface{}) bool {
	if err := json.Unmarshal(x.P.Params, v); err != nil {
		x.Res.Invalid = true
		return false
	}
	return true
}

func (x *Exec) Invalid() { x.Res.Invalid = true }

func (x *Exec) choose(n int) int {
	if n <= 1 {
		return 0
	}
	c := 0
	if x.ci < len(x.choices) {
		c = x.choices[x.ci] % n
		if c < 0 {
			c = 0
		}
	} else if x.rng != nil {
		c = x.rng.IntN(n)
	}
	x.ci++
	x.Used = append(x.Used, c)
	return c
}

func (x *Exec) Choose(n int) int { return x.choose(n) }

// Fail records the first violation.
func (x *Exec) Fail(class, format string, args ...interface{}) {
	if x.viol == nil {
		x.viol = &Violation{Class: class, Detail: fmt.Sprintf(format, args...)}
	}
}

func (x *Exec) Failed() bool { return x.viol != nil }

func (x *Exec) Probe(name string) { x.Res.Probes[name]++ }
func (x *Exec) ProbeN(name string, n int) {
	if n > 0 {
		x.Res.Probes[name] += n
	}
}

// Sig adds to the distinctness signature of the run.
func (x *Exec) Sig(parts ...interface{}) {
	fmt.Fprint(&x.sig, parts...)
	x.sig.WriteByte(';')
}

func (x *Exec) Nontrivial() { x.Res.Nontrivial = true }
func (x *Exec) Check()      { x.Res.Checks++ }

// Bubble runs f inside a fresh synctest bubble with a fresh World whose
// decisions come from the program's choice stream.
func (x *Exec) Bubble(f func(w *World)) {
	x.Res.Bubbles++
	func() {
		defer func() {
			if p := recover(); p != nil {
				s := fmt.Sprint(p)
				if strings.Contains(s, "blocked goroutines remain") || strings.Contains(s, "deadlock: main bubble") {
					// goroutines of a connection abandoned after a panic; the violation is already recorded
					if x.viol == nil {
						x.Fail("harness-leak", "bubble ended with blocked goroutines: %v", s)
					}
					return
				}
				panic(p)
			}
		}()
		synctest.Test(x.T, func(t *testing.T) {
			w := NewWorld()
			w.chooser = x.choose
			defer func() {
				if p := recover(); p != nil {
					x.Fail("harness-panic", "%v\n%s", p, debug.Stack())
				}
				func() {
					defer func() { recover() }()
					w.Close()
				}()
				x.absorb(w)
				if os.Getenv("VERIF_STACKS") != "" {
					pprof.Lookup("goroutine").WriteTo(os.Stderr, 2)
				}
			}()
			f(w)
			w.CheckPanics()
		})
	}()
}

func (x *Exec) absorb(w *World) {
	if os.Getenv("VERIF_TRACE") != "" {
		for _, e := range w.S.Log {
			extra := ""
			if i := strings.Index(e.Key, "/root/"); i >= 0 && e.Op == OpPut {
				for _, mu := range w.S.Mut {
					if mu.Seq == e.Seq {
						if r, err := DecodeRoot("", mu.Body); err == nil && r.Created != nil {
							extra = fmt.Sprintf(" created=%s parents=%v size=%d", FmtTime(*r.Created), r.Parents, r.Size)
						}
					}
				}
			}
			fmt.Fprintln(os.Stderr, "  ", e.String()+extra, time.Duration(e.SimNs))
		}
	}
	x.hash.WriteString(LogHash(w.S.Log))
	x.Res.Events += len(w.S.Log)
	x.Res.Steps += w.Stats.Steps
	x.Res.SimNs += w.Stats.SimNs
	for k, v := range w.Stats.Faults {
		x.Res.Faults[k] += v
	}
	for k, v := range w.Stats.Probes {
		x.Res.Probes[k] += v
	}
	if w.Stats.MaxPending >= 2 {
		x.Res.Probes["concurrent-requests-parked"]++
	}
	if w.Viol != nil && x.viol == nil {
		x.viol = w.Viol
	}
	if n := atomic.LoadInt32(&w.StaleCacheServed); n > 0 {
		x.Res.Probes["stale-cached-node-served"] += int(n)
		if x.viol != nil && !strings.HasSuffix(x.viol.Class, staleSuffix) {
			x.viol.Class += staleSuffix
		}
	}
}

// staleSuffix marks a violation of a run in which mast's node cache served a
// node that had been modified after it was cached (open finding KF-14).
const staleSuffix = "-after-stale-cached-node"

// gcBarrier forces finalizers of everything a run dropped to run now, so that
// a finalizer panic (kv.Open's "dirty tree" check) is attributed to this run.
var FinalizerStuck bool

func gcBarrier() {
	if FinalizerStuck {
		// a finalizer of an abandoned (panicked) connection blocks the finalizer
		// goroutine for good; the worker restarts the process after such a run
		runtime.GC()
		return
	}
	done := make(chan struct{})
	type sentinel struct{ p *int }
	s := &sentinel{new(int)}
	runtime.SetFinalizer(s, func(*sentinel) { close(done) })
	s = nil
	for i := 0; i < 50; i++ {
		runtime.GC()
		select {
		case <-done:
			// one more cycle so finalizers queued behind the sentinel also ran
			runtime.GC()
			time.Sleep(time.Millisecond)
			return
		case <-time.After(2 * time.Millisecond):
		}
	}
	FinalizerStuck = true
}

// Execute runs one program to completion and returns its result.
func Execute(t *testing.T, p *Program) *Result {
	start := time.Now()
	res := &Result{Property: p.Property, Family: p.Family, Seed: p.Seed, Faults: map[string]int{}, Probes: map[string]int{}}
	fam := FindFamily(p.Property, p.Family)
	if fam == nil {
		res.Invalid = true
		return res
	}
	x := &Exec{T: t, P: p, Res: res, choices: p.Choices}
	if !p.NoRng {
		x.rng = NewRng(p.Seed, 2)
	}
	old := debug.SetGCPercent(-1)
	watchdog := time.AfterFunc(time.Duration(envInt("VERIF_RUN_TIMEOUT_S", 90))*time.Second, func() {
		buf := make([]byte, 1<<20)
		n := runtime.Stack(buf, true)
		fmt.Fprintf(os.Stderr, "HANG %d: run exceeded its wall-clock budget\n%s\n", p.Seed, relevantStacks(string(buf[:n])))
		os.Exit(3)
	})
	defer watchdog.Stop()
	func() {
		defer func() {
			if r := recover(); r != nil {
				x.Fail("harness-panic", "%v\n%s", r, debug.Stack())
			}
		}()
		fam.Run(x)
	}()
	debug.SetGCPercent(old)
	gcBarrier()
	res.Violation = x.viol
	if res.Invalid {
		res.Violation = nil
	}
	h := sha256.Sum256([]byte(x.hash.String()))
	res.LogHash = hex.EncodeToString(h[:8])
	sh := sha256.Sum256([]byte(x.sig.String()))
	res.Sig = hex.EncodeToString(sh[:8])
	res.WallMs = time.Since(start).Milliseconds()
	if res.Violation != nil {
		cp := *p
		cp.Choices = append([]int(nil), x.Used...)
		cp.Expect = res.Violation
		cp.LogHash = res.LogHash
		res.Program = &cp
	}
	return res
}

// Generate builds the program for (property, seed): the family is picked by
// the seed, its parameters are drawn from a PRNG seeded by the seed.
func Generate(prop string, seed uint64, tier string, only string) *Program {
	fams := families[prop]
	if len(fams) == 0 {
		return nil
	}
	var fam *Family
	if only != "" {
		fam = FindFamily(prop, only)
		if fam == nil {
			return nil
		}
	} else {
		fam = fams[int(seed%uint64(len(fams)))]
	}
	r := NewRng(seed, 1)
	params := fam.Gen(r, tier)
	b, err := json.Marshal(params)
	if err != nil {
		panic(err)
	}
	return &Program{Property: prop, Family: fam.Name, Seed: seed, Tier: tier, Params: b}
}

func LoadProgram(path string) (*Program, error) {
	b, err := os.ReadFile(path)
	if err != nil {
		return nil, err
	}
	var p Program
	if err := json.Unmarshal(b, &p); err != nil {
		return nil, err
	}
	return &p, nil
}

func SaveProgram(path string, p *Program) error {
	b, err := json.MarshalIndent(p, "", " ")
	if err != nil {
		return err
	}
	return os.WriteFile(path, append(b, '\n'), 0o644)
}

// relevantStacks keeps the goroutines that are running code of the repository or mast.
func relevantStacks(all string) string {
	var keep []string
	for _, g := range strings.Split(all, "\n\n") {
		if strings.Contains(g, "jrhy/") && !strings.Contains(g, "synctest.Wait") {
			lines := strings.Split(g, "\n")
			if len(lines) > 14 {
				lines = lines[:14]
			}
			keep = append(keep, strings.Join(lines, "\n"))
		}
		if len(keep) >= 4 {
			break
		}
	}
	return strings.Join(keep, "\n\n")
}
