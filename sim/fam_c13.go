package sim

// C13: a read-only table never modifies the bucket.

import (
	"fmt"
	"math/rand/v2"
	"strings"
	"time"
)

type C13Op struct {
	Op  string `json:"op"`
	Arg int    `json:"arg,omitempty"`
}

type C13Params struct {
	MW      MWParams     `json:"mw"`
	RO      []C13Op      `json:"ro"`
	Faults  []*FaultSpec `json:"faults,omitempty"` // clean errors on the read-only client's GETs
	Overlap bool         `json:"overlap"`          // run the read-only client concurrently with the writers
}

var c13Ops = []string{"select", "select-range", "insert-new", "insert-existing", "update-existing", "delete-existing", "update-none",
	"txn-write", "refresh", "version", "changes-fwd", "changes-back", "vacuum", "reopen", "count", "txn-refresh-rollback"}

func init() {
	Register(&Family{Property: "C13", Name: "readonly", Gen: func(r *rand.Rand, tier string) interface{} {
		mw := GenMW(r, MWGenOpts{MaxClients: 3, MaxStmts: 8, MaxKeys: 5, MaxCols: 2, Txns: true, Advance: true})
		mw.EPN = []int{2, 3, 4, 0}[r.IntN(4)]
		mw.Inter = 0
		if r.IntN(3) != 0 {
			// leave several unmerged versions behind
			for i := range mw.Scripts {
				var s []MWOp
				for _, op := range mw.Scripts[i] {
					if op.Op != "refresh" && op.Op != "reopen" {
						s = append(s, op)
					}
				}
				mw.Scripts[i] = s
			}
		}
		p := &C13Params{MW: *mw, Overlap: r.IntN(2) == 0}
		n := 3 + r.IntN(8)
		for i := 0; i < n; i++ {
			p.RO = append(p.RO, C13Op{Op: c13Ops[r.IntN(len(c13Ops))], Arg: r.IntN(50)})
		}
		if r.IntN(4) == 0 {
			p.Faults = []*FaultSpec{{Client: "ro", Op: OpGet, Nth: 1 + r.IntN(12), Kind: FaultErr}}
		}
		return p
	}, Run: runC13})
}

func runC13(x *Exec) {
	var p C13Params
	if !x.Params(&p) || !p.MW.Valid() || len(p.RO) > 40 {
		x.Invalid()
		return
	}
	x.Bubble(func(w *World) {
		mp := &p.MW
		w.Policy = mp.Policy
		m := NewMWRun(x, w, mp)
		for _, f := range p.Faults {
			cp := *f
			cp.Client = "ro"
			w.Faults = append(w.Faults, &cp)
		}
		prev := w.S.Observer
		w.S.Observer = func(ev *Event, req *Request, before []byte, existed bool) {
			if prev != nil {
				prev(ev, req, before, existed)
			}
			if ev.Applied && (req.H.ReadOnly || req.H.Client == "ro") {
				x.Fail("C13-readonly-wrote", "a handle opened for a read-only table issued %s %s (event %d, handle %s/%d, derived=%v)", req.Op, req.Key, ev.Seq, req.H.Client, req.H.ID, req.H.Historic)
			}
		}
		var writers []*Client
		for i := range mp.Scripts {
			writers = append(writers, w.NewClient(fmt.Sprintf("c%d", i)))
		}
		ro := w.NewClient("ro")
		for _, c := range writers {
			var err error
			w.Solo(c, func() { err = m.OpenTable(c, false) })
			if err != nil {
				x.Fail("C13-unexpected-error", "open: %v", err)
				return
			}
		}
		var roErrs []string
		faulty := len(p.Faults) > 0
		script := func() {
			var t string
			open := func() bool {
				if t != "" {
					ro.Exec("drop table " + t)
				}
				t = w.TableName("ro")
				if _, err := ro.Exec(ro.CreateSQL(t, m.tableOpts(true))); err != nil {
					if !faulty {
						roErrs = append(roErrs, fmt.Sprintf("read-only open: %v", err))
					}
					t = ""
					return false
				}
				return true
			}
			ro.Step("open")
			if !open() {
				return
			}
			for _, op := range p.RO {
				ro.Step(op.Op)
				if t == "" && !open() {
					continue
				}
				rowsBefore, err := ro.Query("select * from " + t)
				if err != nil {
					if !faulty {
						roErrs = append(roErrs, fmt.Sprintf("select: %v", err))
					}
					continue
				}
				existing := int64(-1)
				if len(rowsBefore) > 0 {
					fmt.Sscanf(rowsBefore[op.Arg%len(rowsBefore)][0], "i:%d", &existing)
				}
				mustFail := false
				unchanged := true
				var serr error
				switch op.Op {
				case "select", "count":
					_, serr = ro.Query("select count(*), max(k) from " + t)
				case "select-range":
					_, serr = ro.Query("select * from "+t+" where k>? and k<=? order by k desc", op.Arg/2, op.Arg*3)
				case "insert-new":
					mustFail = true
					_, serr = ro.Exec(fmt.Sprintf("insert into %s(k) values (?)", t), 100000+op.Arg)
				case "insert-existing":
					mustFail = existing >= 0
					_, serr = ro.Exec(fmt.Sprintf("insert into %s(k) values (?)", t), existing)
				case "update-existing":
					mustFail = existing >= 0
					_, serr = ro.Exec(fmt.Sprintf("update %s set %s=? where k=?", t, mp.Cols[0]), 5, existing)
				case "delete-existing":
					mustFail = existing >= 0
					_, serr = ro.Exec(fmt.Sprintf("delete from %s where k=?", t), existing)
				case "update-none":
					mustFail = true // a write statement, whether or not a row matches
					_, serr = ro.Exec(fmt.Sprintf("update %s set %s=? where k=?", t, mp.Cols[0]), 5, -31337)
				case "txn-refresh-rollback":
					// refused writes around a refresh inside one transaction: ROLLBACK has nothing to take back, in
					// particular not the refresh
					unchanged = false
					ro.Exec("BEGIN")
					_, w1 := ro.Exec(fmt.Sprintf("insert into %s(k) values (?)", t), 300000+op.Arg)
					_, rerr := ro.Query("select s3db_refresh(?)", t)
					mid, merr := ro.Query("select * from " + t)
					_, w2 := ro.Exec(fmt.Sprintf("insert into %s(k) values (?)", t), 300001+op.Arg)
					ro.Exec("ROLLBACK")
					after, aerr := ro.Query("select * from " + t)
					if !faulty {
						x.Check()
						if w1 == nil || w2 == nil {
							x.Fail("C13-write-accepted", "an INSERT inside a transaction on a read-only table reported success")
							return
						}
						if rerr == nil && merr == nil && aerr == nil && RowsString(after) != RowsString(mid) {
							x.Fail("C13-rows-changed", "BEGIN; refused INSERT; s3db_refresh; refused INSERT; ROLLBACK on a read-only table: rows after the refresh %s, after ROLLBACK %s", RowsString(mid), RowsString(after))
							return
						}
					}
				case "txn-write":
					mustFail = true
					ro.Exec("BEGIN")
					_, serr = ro.Exec(fmt.Sprintf("insert into %s(k) values (?)", t), 200000+op.Arg)
					if _, cerr := ro.Exec("COMMIT"); cerr != nil {
						ro.Exec("ROLLBACK")
						if serr == nil {
							serr = cerr
						}
					}
				case "refresh":
					unchanged = false // other writers may have committed
					_, serr = ro.Query("select s3db_refresh(?)", t)
				case "version":
					_, serr = ro.Query("select s3db_version(?)", t)
				case "changes-fwd", "changes-back":
					vers, verr := ro.Versions(t)
					if verr != nil {
						serr = verr
						break
					}
					from, to := "[]", versionsJSON(vers)
					if op.Op == "changes-back" {
						from, to = to, from
					}
					ct := w.TableName("chg")
					if _, serr = ro.Exec(fmt.Sprintf(`create virtual table %s using s3db_changes(table=%s, from='%s', to='%s')`, ct, t, from, to)); serr == nil {
						_, serr = ro.Query("select * from " + ct)
						ro.Exec("drop table " + ct)
					}
				case "vacuum":
					cut := T0.Add(time.Duration(op.Arg) * time.Hour)
					_, serr = ro.Query("select * from s3db_vacuum(?, ?)", t, FmtTime(cut)[:19])
				case "reopen":
					unchanged = false
					open()
					continue
				}
				if mustFail && serr == nil {
					x.Fail("C13-write-accepted", "%s on a read-only table reported success", op.Op)
					return
				}
				writeish := strings.HasPrefix(op.Op, "insert") || strings.HasPrefix(op.Op, "update") || strings.HasPrefix(op.Op, "delete") || op.Op == "txn-write" || op.Op == "vacuum"
				if serr != nil && !writeish && !faulty {
					roErrs = append(roErrs, fmt.Sprintf("%s: %v", op.Op, serr))
				}
				if unchanged {
					rowsAfter, err := ro.Query("select * from " + t)
					if err != nil {
						if !faulty {
							roErrs = append(roErrs, fmt.Sprintf("select after %s: %v", op.Op, err))
						}
						continue
					}
					x.Check()
					if RowsString(rowsAfter) != RowsString(rowsBefore) {
						x.Fail("C13-rows-changed", "%s (err=%v) on a read-only table changed its visible rows from %s to %s", op.Op, serr, RowsString(rowsBefore), RowsString(rowsAfter))
						return
					}
				}
				x.Probe("ro-op-" + op.Op)
			}
		}
		if p.Overlap {
			for i, c := range writers {
				c, s := c, mp.Scripts[i]
				w.Go(c, func() { m.RunScript(c, s) })
			}
			w.Go(ro, script)
			w.Run()
		} else {
			for i, c := range writers {
				c, s := c, mp.Scripts[i]
				w.Go(c, func() { m.RunScript(c, s) })
			}
			w.Run()
			w.Solo(ro, script)
		}
		w.CheckPanics()
		if w.Viol != nil || x.Failed() {
			return
		}
		if len(m.Errs) > 0 || len(roErrs) > 0 {
			x.Fail("C13-unexpected-error", "%s %s", strings.Join(m.Errs, "; "), strings.Join(roErrs, "; "))
			return
		}
		cur, _ := m.Lay.Versions(w.S.Bucket)
		x.ProbeN("state-has-2+-unmerged-versions", b2i(len(cur) >= 2))
		n := 0
		for _, e := range w.S.Log {
			if e.Client == "ro" && e.Op != OpStep {
				n++
			}
		}
		if n >= 3 {
			x.Nontrivial()
		}
		x.Sig(LogHash(w.S.Log))
	})
}
