package sim

// C18: encrypted nodes are confidential, authenticated and still deduplicate;
// data written by the earlier hand-rolled box format remains readable.
// Storage corruption is the fault kind here: after a commit, one stored node
// object is damaged in every way of a catalogue and a fresh handle reads the
// whole tree.

import (
	"bytes"
	"context"
	"fmt"
	"math/rand/v2"
	"sort"
	"strings"

	"github.com/jrhy/s3db/kv"
)

type C18Params struct {
	Pass   string `json:"pass"`
	NKeys  int    `json:"nkeys"`
	BF     int    `json:"bf"`
	VLen   int    `json:"vlen"`   // value length
	Legacy bool   `json:"legacy"` // the bucket is written in the legacy box format (hook H5) and read by the shipped decryptor
	Change int    `json:"change"` // keys changed in the second commit
	Seed   int    `json:"seed"`
}

func init() {
	Register(&Family{Property: "C18", Name: "encrypted-nodes", Gen: func(r *rand.Rand, tier string) interface{} {
		return &C18Params{Pass: []string{"passphrase one", "p", strings.Repeat("long passphrase ", 8), "\x00\x01binary"}[r.IntN(4)],
			NKeys: 1 + r.IntN(14), BF: []int{2, 3, 4, 16}[r.IntN(4)], VLen: []int{0, 1, 7, 8, 15, 16, 17, 31, 32, 33, 47, 48, 63, 64, 65, 100, 200}[r.IntN(17)],
			Legacy: r.IntN(3) == 0, Change: r.IntN(3), Seed: r.IntN(1000)}
	}, Run: runC18})
}

// legacyEncryptor seals with the earlier hand-rolled box (only a reader of it ships).
type legacyEncryptor struct{ key [32]byte }

func (l *legacyEncryptor) Encrypt(path string, value []byte) ([]byte, error) {
	combined := append(append([]byte{}, value...), l.key[:]...)
	n, err := kv.VerifNonce(combined, 24)
	if err != nil {
		return nil, err
	}
	c, err := kv.VerifLegacySeal(value, n[:24], &l.key)
	if err != nil {
		return nil, err
	}
	return append(append([]byte{}, n[:24]...), c...), nil
}
func (l *legacyEncryptor) Decrypt(path string, value []byte) ([]byte, error) {
	return nil, fmt.Errorf("the legacy writer does not read")
}

func runC18(x *Exec) {
	var p C18Params
	if !x.Params(&p) || p.NKeys < 1 || p.NKeys > 40 || p.BF < 2 || p.BF > 64 || p.VLen < 0 || p.VLen > 400 || p.Pass == "" || p.Change < 0 {
		x.Invalid()
		return
	}
	x.Bubble(func(w *World) {
		w.Budget = 400000 // the corruption catalogue re-reads the whole tree a few hundred times
		c := w.NewClient("kv")
		ctx := context.Background()
		lay := KVLayout("enc")
		store := w.S.NewHandle("kv", "kv", false, nil)
		var key [32]byte
		copy(key[:], kv.VerifDeriveKey([]byte(p.Pass), nil))
		cfgWith := func(enc kv.Encryptor) kv.Config {
			return kv.Config{Storage: &kv.S3BucketInfo{EndpointURL: "sim://kv", BucketName: "simbucket", Prefix: "enc"}, KeysLike: "", ValuesLike: "",
				BranchFactor: uint(p.BF), NodeEncryptor: enc}
		}
		reader := kv.V1NodeEncryptor([]byte(p.Pass))
		var writer kv.Encryptor = reader
		if p.Legacy {
			writer = &legacyEncryptor{key}
		}
		model := map[string]string{}
		mkKey := func(i int) string { return fmt.Sprintf("PLAINKEY-%04d-KEYKEYKEY", i) }
		mkVal := func(i, gen int) string {
			s := fmt.Sprintf("PLAINVALUE-%04d-%d-", i, gen)
			for len(s) < p.VLen {
				s += "VALUEBYTES"
			}
			if p.VLen < len(s) && p.VLen >= 0 && p.VLen < 12 {
				return s[:p.VLen]
			}
			return s
		}
		readAll := func(enc kv.Encryptor) (map[string]string, error) {
			db, err := kv.Open(ctx, store, cfgWith(enc), kv.OpenOptions{ReadOnly: true}, T0)
			if err != nil {
				return nil, fmt.Errorf("open: %w", err)
			}
			cur, err := db.Cursor(ctx)
			if err != nil {
				return nil, fmt.Errorf("cursor: %w", err)
			}
			if err := cur.Min(ctx); err != nil {
				return nil, fmt.Errorf("min: %w", err)
			}
			got := map[string]string{}
			for {
				k, v, ok := cur.Get()
				if !ok {
					break
				}
				if !v.Tombstoned() {
					got[k.(string)], _ = v.Value.(string)
				}
				if err := cur.Forward(ctx); err != nil {
					return nil, fmt.Errorf("forward: %w", err)
				}
			}
			var mks []string
			for k := range model {
				mks = append(mks, k)
			}
			sort.Strings(mks)
			for _, k := range mks {
				var v string
				ok, err := db.Get(ctx, k, &v)
				if err != nil {
					return nil, fmt.Errorf("get: %w", err)
				}
				if !ok || v != got[k] {
					return nil, fmt.Errorf("Get(%q)=(%v,%q) disagrees with the cursor (%q)", k, ok, v, got[k])
				}
			}
			return got, nil
		}
		same := func(a, b map[string]string) bool {
			if len(a) != len(b) {
				return false
			}
			for k, v := range a {
				if b[k] != v {
					return false
				}
			}
			return true
		}
		w.Solo(c, func() {
			db, err := kv.Open(ctx, store, cfgWith(writer), kv.OpenOptions{}, T0)
			if err != nil {
				x.Fail("C18-unexpected-error", "open: %v", err)
				return
			}
			defer func() { db.Cancel() }()
			for i := 0; i < p.NKeys; i++ {
				k, v := mkKey(i), mkVal(i, 0)
				if err := db.Set(ctx, T0.Add(1e9), k, v); err != nil {
					x.Fail("C18-unexpected-error", "set: %v", err)
					return
				}
				model[k] = v
			}
			if _, err := db.Commit(ctx); err != nil {
				x.Fail("C18-unexpected-error", "commit: %v", err)
				return
			}
			// (1) confidentiality: no plaintext pattern in any node object
			nodes := []string{}
			for k, b := range w.S.Bucket {
				if !strings.HasPrefix(k, lay.Node) {
					continue
				}
				nodes = append(nodes, k)
				x.Check()
				for _, pat := range []string{"PLAINKEY", "PLAINVAL", "KEYKEYKE", "VALUEBYT"} {
					if bytes.Contains(b, []byte(pat)) {
						x.Fail("C18-plaintext-stored", "node object %s contains the plaintext bytes %q", k, pat)
						return
					}
				}
			}
			sort.Strings(nodes)
			x.ProbeN("encrypted-node-objects", len(nodes))
			// (2) clean re-open with the same passphrase returns everything
			got, err := readAll(reader)
			x.Check()
			if err != nil {
				x.Fail("C18-unreadable", "re-open with the right passphrase (legacy writer=%v, value length %d): %v", p.Legacy, p.VLen, err)
				return
			}
			if !same(got, model) {
				x.Fail("C18-wrong-data", "re-open with the right passphrase returns different data (legacy writer=%v, value length %d): %d entries, expected %d; e.g. %q", p.Legacy, p.VLen, len(got), len(model), firstDiff(got, model))
				return
			}
			if p.Legacy {
				x.Probe("legacy-bucket-read-back")
			}
			// (3) wrong passphrase
			if len(nodes) > 0 {
				x.Check()
				if bad, err := readAll(kv.V1NodeEncryptor([]byte(p.Pass + "x"))); err == nil {
					x.Fail("C18-wrong-passphrase-accepted", "a different passphrase reads the bucket without error: %d entries", len(bad))
					return
				}
				x.Probe("wrong-passphrase-rejected")
			}
			// (4) determinism / dedup: an identical second writer produces identical objects; an unchanged re-commit writes nothing
			if !p.Legacy {
				mutBefore := len(w.S.Mut)
				if _, err := db.Commit(ctx); err != nil {
					x.Fail("C18-unexpected-error", "second commit: %v", err)
					return
				}
				x.Check()
				if len(w.S.Mut) != mutBefore {
					x.Fail("C18-stored-twice", "committing an unchanged tree wrote %v", mutKeys(w.S.Mut[mutBefore:]))
					return
				}
				for i := 0; i < p.Change && i < p.NKeys; i++ {
					k, v := mkKey(i), mkVal(i, 1)
					db.Set(ctx, T0.Add(2e9), k, v)
					model[k] = v
				}
				snapshot := CopyBucket(w.S.Bucket)
				if _, err := db.Commit(ctx); err != nil {
					x.Fail("C18-unexpected-error", "third commit: %v", err)
					return
				}
				for _, mu := range w.S.Mut[mutBefore:] {
					if mu.Op == OpPut && strings.HasPrefix(mu.Key, lay.Node) {
						x.Check()
						if old, ok := snapshot[mu.Key]; ok && !bytes.Equal(old, mu.Body) {
							x.Fail("C18-not-deterministic", "node %s was stored again with different bytes: equal plaintext must give equal ciphertext", mu.Key)
							return
						}
					}
				}
				// a second, independent writer of the same content (other prefix) must produce the same node objects
				store2 := w.S.NewHandle("kv", "kv2", false, nil)
				cf2 := cfgWith(reader)
				cf2.Storage = &kv.S3BucketInfo{EndpointURL: "sim://kv", BucketName: "simbucket", Prefix: "enc2"}
				db2, err := kv.Open(ctx, store2, cf2, kv.OpenOptions{}, T0)
				if err == nil {
					for i := 0; i < p.NKeys; i++ {
						gen := 0
						if i < p.Change {
							gen = 1
						}
						tm := T0.Add(1e9)
						if gen == 1 {
							tm = T0.Add(2e9)
						}
						db2.Set(ctx, tm, mkKey(i), mkVal(i, gen))
					}
					_, err = db2.Commit(ctx)
					db2.Cancel()
				}
				if err != nil {
					x.Fail("C18-unexpected-error", "second writer: %v", err)
					return
				}
				lay2 := KVLayout("enc2")
				cur1, _ := lay.Versions(w.S.Bucket)
				cur2, _ := lay2.Versions(w.S.Bucket)
				if len(cur1) == 1 && len(cur2) == 1 {
					r1, _ := DecodeRoot(cur1[0], w.S.Bucket[lay.Current+cur1[0]])
					r2, _ := DecodeRoot(cur2[0], w.S.Bucket[lay2.Current+cur2[0]])
					x.Check()
					if r1 != nil && r2 != nil && r1.Link != nil && r2.Link != nil {
						if *r1.Link != *r2.Link || !bytes.Equal(w.S.Bucket[lay.Node+*r1.Link], w.S.Bucket[lay2.Node+*r2.Link]) {
							// the trees may differ in shape when built in a different order; only flag when names agree but bytes differ
							if *r1.Link == *r2.Link {
								x.Fail("C18-not-deterministic", "two writers of the same content stored different bytes under the same node name %s", *r1.Link)
								return
							}
						} else {
							x.Probe("independent-writers-same-ciphertext")
						}
					}
				}
				got, err := readAll(reader)
				if err != nil || !same(got, model) {
					x.Fail("C18-wrong-data", "after the second commit: %v", err)
					return
				}
			}
			// (5) corruption catalogue on every node object of the current tree
			cur, _ := lay.Versions(w.S.Bucket)
			if len(cur) != 1 {
				return
			}
			root, _ := DecodeRoot(cur[0], w.S.Bucket[lay.Current+cur[0]])
			reach := map[string]bool{}
			// only objects the current tree uses are guaranteed to be read by a full scan
			nodesNow := []string{}
			for k := range w.S.Bucket {
				if strings.HasPrefix(k, lay.Node) {
					nodesNow = append(nodesNow, k)
				}
			}
			sort.Strings(nodesNow)
			_ = root
			_ = reach
			base, err := readAll(reader)
			if err != nil {
				return
			}
			readKeys := map[string]bool{}
			for _, e := range w.S.Log[len(w.S.Log)-200*btoi(len(w.S.Log) > 200):] {
				_ = e
			}
			// which node objects does a full read touch? learn from the request log of one clean read
			before := len(w.S.Log)
			readAll(reader)
			for _, e := range w.S.Log[before:] {
				if e.Op == OpGet && strings.HasPrefix(e.Key, lay.Node) {
					readKeys[e.Key] = true
				}
			}
			for _, nk := range nodesNow {
				if !readKeys[nk] {
					continue
				}
				orig := w.S.Bucket[nk]
				other := orig
				for _, ok2 := range nodesNow {
					if ok2 != nk {
						other = w.S.Bucket[ok2]
					}
				}
				for _, cr := range corruptions(orig, other, p.Seed) {
					if x.Failed() {
						return
					}
					x.Check()
					w.S.Bucket[nk] = cr.data
					got, err := readAll(reader)
					w.S.Bucket[nk] = orig
					if err == nil && cr.kind == "swap" {
						// Outside the quantifier (single-bit/byte corruptions and truncations): a whole object
						// replaced by ANOTHER authentic object of the same passphrase is accepted, because the
						// ciphertext is not bound to its (content-derived) name. Recorded as an observation.
						x.Probe("observation-swapped-authentic-object-accepted")
						continue
					}
					if err == nil {
						if same(got, base) {
							x.Fail("C18-corruption-unnoticed", "node %s damaged (%s) and the whole tree still reads back as before: the damaged bytes were accepted as authentic", nk, cr.name)
						} else {
							x.Fail("C18-corruption-yields-data", "node %s damaged (%s): reading returns different data without any error (%d entries, e.g. %q)", nk, cr.name, len(got), firstDiff(got, base))
						}
						return
					}
					x.Probe("corruption-" + cr.kind)
				}
			}
		})
		w.CheckPanics()
		x.Sig(p.Pass, p.NKeys, p.BF, p.VLen, p.Legacy, p.Change)
		x.Nontrivial()
		// supplement (input enumeration, not simulation): Encrypt/Decrypt round trip for every length 0..200 and the legacy seal
		if !x.Failed() && w.Viol == nil {
			leg := &legacyEncryptor{key}
			for n := 0; n <= 200; n++ {
				msg := bytes.Repeat([]byte{byte(n), 0x5a, byte(p.Seed)}, n/3+1)[:n]
				ct, err := reader.Encrypt("x", msg)
				if err != nil {
					x.Fail("C18-roundtrip", "Encrypt length %d: %v", n, err)
					return
				}
				pt, err := reader.Decrypt("x", ct)
				x.Check()
				if err != nil || !bytes.Equal(pt, msg) {
					x.Fail("C18-roundtrip", "Decrypt(Encrypt(m)) != m for length %d: %v", n, err)
					return
				}
				ct2, _ := reader.Encrypt("y", msg)
				if !bytes.Equal(ct, ct2) {
					x.Fail("C18-not-deterministic", "two encryptions of the same %d bytes differ", n)
					return
				}
				lc, err := leg.Encrypt("x", msg)
				if err != nil {
					x.Fail("C18-harness", "legacy seal: %v", err)
					return
				}
				pt, err = reader.Decrypt("x", lc)
				x.Check()
				if err != nil || !bytes.Equal(pt, msg) {
					x.Fail("C18-legacy-unreadable", "a %d-byte message sealed in the legacy box format decrypts to something else (err=%v)", n, err)
					return
				}
			}
			x.Probe("length-sweep-0..200")
		}
	})
}

func btoi(b bool) int {
	if b {
		return 1
	}
	return 0
}

type corruption struct {
	kind, name string
	data       []byte
}

func corruptions(orig, other []byte, seed int) []corruption {
	var out []corruption
	n := len(orig)
	flip := func(pos int, bit uint) {
		if pos < 0 || pos >= n {
			return
		}
		d := append([]byte{}, orig...)
		d[pos] ^= 1 << bit
		out = append(out, corruption{"bitflip", fmt.Sprintf("bit %d of byte %d of %d flipped", bit, pos, n), d})
	}
	for _, pos := range []int{0, 1, 12, 23, 24, 25, 32, 39, 40, 41, 56, 71, 72, 73, n / 2, n - 2, n - 1, (seed * 7) % max(n, 1)} {
		flip(pos, uint(seed+pos)%8)
	}
	for _, pos := range []int{0, 24, 40, n - 1} {
		if pos >= 0 && pos < n {
			d := append([]byte{}, orig...)
			d[pos] = d[pos] + 1 + byte(seed%200)
			out = append(out, corruption{"bytereplace", fmt.Sprintf("byte %d of %d replaced", pos, n), d})
		}
	}
	for _, l := range []int{0, 1, 16, 23, 24, 25, 31, 32, 39, 40, 41, n / 2, n - 16, n - 1} {
		if l >= 0 && l < n {
			out = append(out, corruption{"truncate", fmt.Sprintf("truncated from %d to %d bytes", n, l), append([]byte{}, orig[:l]...)})
		}
	}
	out = append(out, corruption{"extend", fmt.Sprintf("one byte appended to %d", n), append(append([]byte{}, orig...), byte(seed))})
	// Not in the catalogue: replacing an object by ANOTHER authentic object of the same passphrase. It is outside the
	// quantifier (single-bit/byte corruptions and truncations); it was tried once and is accepted silently (ciphertext is
	// not bound to the content-derived name) and can even make a scan loop (child replaced by its parent) - DESIGN 6/C18.
	_ = other
	return out
}

func firstDiff(got, want map[string]string) string {
	var ks []string
	for k := range want {
		ks = append(ks, k)
	}
	sort.Strings(ks)
	for _, k := range ks {
		if got[k] != want[k] {
			g := got[k]
			if len(g) > 60 {
				g = g[:60]
			}
			return fmt.Sprintf("%s: got %q", k, g)
		}
	}
	for k := range got {
		if _, ok := want[k]; !ok {
			return "extra key " + k
		}
	}
	return ""
}
