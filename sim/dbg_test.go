package sim

import (
	"fmt"
	"testing"
	"testing/synctest"
)

func TestDbg(t *testing.T) {
	synctest.Test(t, func(t *testing.T) {
		w := NewWorld()
		c0 := w.NewClient("c0")
		c1 := w.NewClient("c1")
		t0, t1 := w.TableName("t"), w.TableName("t")
		w.Solo(c0, func() {
			c0.Exec(c0.CreateSQL(t0, TableOpts{Prefix: "p", Columns: "k primary key, a, b"}))
			c0.SetWriteTime(1e9)
			fmt.Println(c0.Exec("insert into "+t0+"(k,a,b) values (12,50,51)"))
		})
		w.Solo(c1, func() {
			c1.Exec(c1.CreateSQL(t1, TableOpts{Prefix: "p", Columns: "k primary key, a, b"}))
		})
		w.Solo(c0, func() {
			c0.SetWriteTime(5e9)
			fmt.Println(c0.Exec("update "+t0+" set a=100 where k=12"))
		})
		w.Solo(c1, func() {
			c1.SetWriteTime(7e9)
			fmt.Println(c1.Exec("update "+t1+" set b=200 where k=12"))
			c1.Query("select s3db_refresh(?)", t1)
			fmt.Println(c1.Query("select * from "+t1))
		})
		lay := TableLayout("p")
		cur, mer := lay.Versions(w.S.Bucket)
		for _, v := range append(cur, mer...) {
			wt, _ := lay.WalkVersion(w.S.Bucket, v)
			fmt.Println(v, wt.Root.Parents, wt.Err())
			for _, e := range wt.Entries {
				fmt.Printf("   %s mod=%d del=%v deloff=%v cols=%v\n", e.Key.Canon(), e.Mod-T0.UnixNano(), e.Deleted, e.DelOff, e.Cols)
			}
		}
		w.Close()
	})
}
