package sim

// O-rows: executable reference for README "Multiple Writers" as sharpened by
// property C02. It looks only at the set of accepted statements - never at
// offsets, entries or trees.

import (
	"fmt"
	"sort"
	"strings"
)

type MStmt struct {
	ID   int               `json:"id"`
	Kind string            `json:"kind"`           // insert | update | delete
	Key  string            `json:"key"`            // canonical key value
	Cols map[string]string `json:"cols,omitempty"` // assigned column -> canonical value
	WT   int64             `json:"wt"`             // write time, ns since Unix epoch
}

func (s MStmt) String() string {
	var cs []string
	for k, v := range s.Cols {
		cs = append(cs, k+"="+v)
	}
	sort.Strings(cs)
	return fmt.Sprintf("#%d %s %s {%s} @%d", s.ID, s.Kind, s.Key, strings.Join(cs, ","), s.WT)
}

// ModelRows computes the rows a reader that merged exactly stmts must see.
// cols are the declared columns in order, keyCol the index of the key column.
// Output rows are keyed by canonical key.
func ModelRows(stmts []MStmt, cols []string, keyCol int) map[string][]string {
	byKey := map[string][]MStmt{}
	for _, s := range stmts {
		byKey[s.Key] = append(byKey[s.Key], s)
	}
	out := map[string][]string{}
	for key, ss := range byKey {
		var status *MStmt
		for i := range ss {
			s := &ss[i]
			if s.Kind != "insert" && s.Kind != "delete" {
				continue
			}
			if status == nil || s.WT > status.WT {
				status = s
			}
		}
		if status == nil || status.Kind == "delete" {
			continue
		}
		row := make([]string, len(cols))
		for i, c := range cols {
			if i == keyCol {
				row[i] = key
				continue
			}
			row[i] = "null"
			var best *MStmt
			for j := range ss {
				s := &ss[j]
				if s.Kind == "delete" || s.WT < status.WT {
					continue
				}
				if _, ok := s.Cols[c]; !ok {
					continue
				}
				if best == nil || s.WT > best.WT {
					best = s
				}
			}
			if best != nil {
				row[i] = best.Cols[c]
			}
		}
		out[key] = row
	}
	return out
}

// RowsByKey indexes SELECT * output by canonical key.
func RowsByKey(rows [][]string, keyCol int) map[string][]string {
	m := map[string][]string{}
	for _, r := range rows {
		m[r[keyCol]] = r
	}
	return m
}

// DiffRowMaps describes the first difference, or "".
func DiffRowMaps(got, want map[string][]string) string {
	keys := map[string]bool{}
	for k := range got {
		keys[k] = true
	}
	for k := range want {
		keys[k] = true
	}
	var ks []string
	for k := range keys {
		ks = append(ks, k)
	}
	sort.Strings(ks)
	for _, k := range ks {
		g, gok := got[k]
		w, wok := want[k]
		switch {
		case !gok:
			return fmt.Sprintf("key %s: missing, expected %v", k, w)
		case !wok:
			return fmt.Sprintf("key %s: present %v, expected absent", k, g)
		case strings.Join(g, ",") != strings.Join(w, ","):
			return fmt.Sprintf("key %s: got %v, expected %v", k, g, w)
		}
	}
	return ""
}
