package sim

// C04: a crash at any point of a commit (transaction commit, merge-on-open,
// vacuum) leaves old or new contents. The victim runs once fault-free under a
// seeded flush order; the bucket is then rebuilt at EVERY prefix of the
// victim's mutation log (plus "one concurrent node PUT had not landed"
// variants) and handed to read-only and read-write recovery.

import (
	"fmt"
	"math/rand/v2"
	"strings"
	"time"
)

type C04Params struct {
	MW     MWParams `json:"mw"`
	Kind   string   `json:"kind"` // txn | open | vacuum
	Ops    []MWOp   `json:"ops,omitempty"`
	Cutoff int64    `json:"cutoff,omitempty"` // vacuum: ns after T0
	Pre    string   `json:"pre,omitempty"`    // "refresh": victim refreshes before the transaction
	Tie    int      `json:"tie,omitempty"`    // txn: the victim first commits this many rows at one pinned write time and then, inside the transaction, overwrites them at the same write time
}

func init() {
	Register(&Family{Property: "C04", Name: "crash-commit", Gen: func(r *rand.Rand, tier string) interface{} {
		mw := GenMW(r, MWGenOpts{MaxClients: 2, MaxStmts: 7, MaxKeys: 6, MaxCols: 2, Txns: true, Advance: true, Skew: true})
		mw.EPN = []int{2, 2, 3, 4, 0}[r.IntN(5)]
		mw.Inter = 0
		p := &C04Params{MW: *mw}
		p.Kind = []string{"txn", "txn", "txn", "open", "vacuum"}[r.IntN(5)]
		base := int64(100 * time.Second)
		switch p.Kind {
		case "txn":
			n := 1 + r.IntN(5)
			for i := 0; i < n; i++ {
				id := 100 + i
				op := MWOp{ID: id, Key: []int{1, 2, 3, 4, 6, 8, 9, 12, 16, 18, 27, 32, 64}[r.IntN(13)], WT: base + int64(i)*1e9 + int64(r.IntN(1000))}
				switch r.IntN(4) {
				case 0, 1:
					op.Op = "insert"
					op.Set = map[string]int{mw.Cols[0]: id * 10}
				case 2:
					op.Op = "update"
					op.Set = map[string]int{mw.Cols[r.IntN(len(mw.Cols))]: id * 10}
				default:
					op.Op = "delete"
				}
				p.Ops = append(p.Ops, op)
			}
			if r.IntN(3) == 0 {
				p.Pre = "refresh"
			}
			if r.IntN(3) == 0 {
				// a connection that keeps one explicit write time over two transactions: the interrupted
				// one overwrites values of the committed one with every time tied. Whatever a recovery
				// open finds listed (the version and its parent together, after a crash between the
				// version PUT and the retire step), the successor's values are the table's.
				p.Tie = 1 + r.IntN(3)
			}
		case "vacuum":
			p.Cutoff = []int64{0, 1e9, 5e9, 50e9, 4000e9, 1e15}[r.IntN(6)]
			if r.IntN(2) == 0 {
				p.Pre = "refresh"
			}
		}
		return p
	}, Run: runC04})
}

func runC04(x *Exec) {
	var p C04Params
	if !x.Params(&p) || !p.MW.Valid() || len(p.Ops) > 12 || p.Tie < 0 || p.Tie > 4 || (p.Tie > 0 && p.Kind != "txn") {
		x.Invalid()
		return
	}
	for _, op := range p.Ops {
		if op.WT <= int64(50*time.Second) || op.ID < 100 || len(op.Null) > 0 {
			x.Invalid() // victim statements are later than every prefix statement
			return
		}
		for c := range op.Set {
			ok := false
			for _, cc := range p.MW.Cols {
				ok = ok || cc == c
			}
			if !ok {
				x.Invalid()
				return
			}
		}
	}
	x.Bubble(func(w *World) {
		mp := &p.MW
		w.Policy = "random"
		m := NewMWRun(x, w, mp)
		InstallImmutability(w, x, m.Lay)
		var writers []*Client
		for i := range mp.Scripts {
			c := w.NewClient(fmt.Sprintf("c%d", i))
			writers = append(writers, c)
			var err error
			w.Solo(c, func() { err = m.OpenTable(c, false) })
			if err != nil {
				x.Fail("C04-open", "writer cannot open: %v", err)
				return
			}
		}
		for i, c := range writers {
			c, script := c, mp.Scripts[i]
			w.Go(c, func() { m.RunScript(c, script) })
		}
		w.Run()
		w.CheckPanics()
		if w.Viol != nil || x.Failed() {
			return
		}
		if len(m.Errs) > 0 {
			x.Fail("C04-unexpected-error", "prefix: %s", strings.Join(m.Errs, "; "))
			return
		}
		w.AdvanceClock(10 * time.Second)
		rec := w.NewClient("rec")
		readRO := func(label string) ([][]string, error) {
			var rows [][]string
			var err error
			rec.Restart()
			w.Solo(rec, func() {
				t := w.TableName("rec")
				if _, err = rec.Exec(rec.CreateSQL(t, m.tableOpts(true))); err != nil {
					err = fmt.Errorf("read-only open: %w", err)
					return
				}
				rows, err = rec.Query("select * from " + t)
				if err != nil {
					err = fmt.Errorf("select: %w", err)
				}
			})
			return rows, err
		}
		tieWT := int64(99 * time.Second) // later than every prefix statement, earlier than every other victim statement
		if p.Tie > 0 {
			var terr error
			victim := writers[0]
			w.Solo(victim, func() {
				t := m.Tables[victim.Name]
				if _, terr = victim.Query("select s3db_refresh(?)", t); terr != nil {
					return
				}
				victim.SetWriteTime(tieWT)
				for j := 0; j < p.Tie && terr == nil; j++ {
					_, terr = victim.Exec(fmt.Sprintf("insert into %s(k,%s) values (?,?)", t, mp.Cols[0]), 1000+7*j, 7000+j)
				}
			})
			if terr != nil {
				x.Fail("C04-unexpected-error", "tie setup: %v", terr)
				return
			}
			x.Probe("victim-overwrites-at-tied-write-time")
		}
		rowsBefore, err := readRO("before")
		if err != nil {
			x.Fail("C04-unexpected-error", "before victim: %v", err)
			return
		}
		base := CopyBucket(w.S.Bucket)
		m0 := len(w.S.Mut)
		// ---- the victim ----
		var victim *Client
		var verr error
		switch p.Kind {
		case "open":
			victim = w.NewClient("victim")
			w.Solo(victim, func() { verr = m.OpenTable(victim, false) })
		default:
			victim = writers[0]
			w.Solo(victim, func() {
				t := m.Tables[victim.Name]
				if p.Pre == "refresh" || p.Kind == "vacuum" { // vacuum refuses while other writers' versions are unmerged
					if _, verr = victim.Query("select s3db_refresh(?)", t); verr != nil {
						return
					}
				}
				if p.Kind == "vacuum" {
					var rows [][]string
					rows, verr = victim.Query("select * from s3db_vacuum(?, ?)", t, FmtTime(T0.Add(time.Duration(p.Cutoff)))[:19])
					if verr == nil && (len(rows) != 1 || rows[0][0] != "null") {
						verr = fmt.Errorf("vacuum reported %s", RowsString(rows))
					}
					return
				}
				if _, verr = victim.Exec("BEGIN"); verr != nil {
					return
				}
				if p.Tie > 0 {
					victim.SetWriteTime(tieWT)
					for j := 0; j < p.Tie; j++ {
						if _, verr = victim.Exec(fmt.Sprintf("update %s set %s=? where k=?", t, mp.Cols[0]), 8000+j, 1000+7*j); verr != nil {
							return
						}
					}
				}
				for _, op := range p.Ops {
					victim.SetWriteTime(op.WT)
					switch op.Op {
					case "insert":
						col := sortedKeys(op.Set)
						if len(col) == 0 {
							_, verr = victim.Exec(fmt.Sprintf("insert into %s(k) values (?)", t), op.Key)
						} else {
							_, verr = victim.Exec(fmt.Sprintf("insert into %s(k,%s) values (?,?)", t, col[0]), op.Key, op.Set[col[0]])
						}
						if isConstraint(verr) {
							verr = nil
						}
					case "update":
						for _, col := range sortedKeys(op.Set) {
							_, verr = victim.Exec(fmt.Sprintf("update %s set %s=? where k=?", t, col), op.Set[col], op.Key)
						}
					case "delete":
						_, verr = victim.Exec(fmt.Sprintf("delete from %s where k=?", t), op.Key)
					}
					if verr != nil {
						return
					}
				}
				_, verr = victim.Exec("COMMIT")
			})
		}
		w.CheckPanics()
		if w.Viol != nil {
			return
		}
		if verr != nil {
			x.Fail("C04-unexpected-error", "victim (%s) failed without any fault: %v", p.Kind, verr)
			return
		}
		vm := append([]Mutation(nil), w.S.Mut[m0:]...)
		N := len(vm)
		rowsAfter, err := readRO("after")
		if err != nil {
			x.Fail("C04-after", "acknowledged %s, then a read-only open fails: %v", p.Kind, err)
			return
		}
		if p.Kind != "txn" && RowsString(rowsAfter) != RowsString(rowsBefore) {
			x.Fail("C04-contents-changed", "%s changed the table contents: before %s after %s", p.Kind, RowsString(rowsBefore), RowsString(rowsAfter))
			return
		}
		sb, sa := RowsString(rowsBefore), RowsString(rowsAfter)
		x.Sig(p.Kind, N, LogHash(w.S.Log))
		if N >= 2 {
			x.Nontrivial()
		}
		x.ProbeN("victim-mutations", N)
		retire := 0
		for _, mu := range vm {
			if strings.HasPrefix(mu.Key, m.Lay.Merged) {
				retire++
			}
		}
		x.ProbeN("victim-retired-a-parent", b2i(retire > 0))
		x.ProbeN("victim-retired-2+-parents", b2i(retire >= 2))
		// ---- every crash point ----
		type snap struct {
			label  string
			bucket map[string][]byte
			acked  bool
		}
		var snaps []snap
		for k := 0; k <= N; k++ {
			snaps = append(snaps, snap{fmt.Sprintf("crash after %d of %d mutations", k, N), BucketAt(base, vm, k), k == N})
		}
		// concurrent flush: node PUTs issued together may land in any subset
		for k := 2; k <= N; k++ {
			run := 0
			for i := k - 1; i >= 0 && vm[i].Op == OpPut && strings.HasPrefix(vm[i].Key, m.Lay.Node); i-- {
				run++
			}
			if run >= 2 {
				skip := k - 1 - (1 + x.Choose(run-1)) // drop one earlier node PUT of the same run
				b := CopyBucket(base)
				for i, mu := range vm[:k] {
					if i == skip {
						continue
					}
					if mu.Op == OpPut {
						b[mu.Key] = mu.Body
					} else {
						delete(b, mu.Key)
					}
				}
				snaps = append(snaps, snap{fmt.Sprintf("crash after %d of %d mutations with node PUT #%d still in flight", k, N, skip+1), b, false})
				x.Probe("in-flight-node-put-variant")
			}
		}
		for _, s := range snaps {
			if x.Failed() {
				return
			}
			x.Check()
			w.S.Bucket = CopyBucket(s.bucket)
			// (c) every current version present is complete
			cur, _ := m.Lay.Versions(w.S.Bucket)
			for _, v := range cur {
				wt, err := m.Lay.WalkVersion(w.S.Bucket, v)
				if err != nil || !wt.OK() {
					x.Fail("C04-dangling", "%s (%s): current version %s refers to objects that are not stored: %v %s", s.label, p.Kind, v, err, wt.Err())
					return
				}
			}
			// (a) read-only recovery
			rows, err := readRO(s.label)
			if err != nil {
				x.Fail("C04-recovery-open", "%s (%s): %v", s.label, p.Kind, err)
				return
			}
			got := RowsString(rows)
			if s.acked && got != sa {
				x.Fail("C04-acked-lost", "%s acknowledged, but a later open shows %s instead of %s", p.Kind, got, sa)
				return
			}
			if got != sb && got != sa {
				x.Fail("C04-mixture", "%s (%s): open shows %s, neither before %s nor after %s", s.label, p.Kind, got, sb, sa)
				return
			}
			// (b) read-write recovery, then a further write
			var rwRows, finalRows [][]string
			var rerr error
			rec.Restart()
			w.Solo(rec, func() {
				t := w.TableName("recrw")
				if _, rerr = rec.Exec(rec.CreateSQL(t, m.tableOpts(false))); rerr != nil {
					rerr = fmt.Errorf("read-write open: %w", rerr)
					return
				}
				if rwRows, rerr = rec.Query("select * from " + t); rerr != nil {
					return
				}
				rec.SetWriteTime(int64(900 * time.Second))
				if _, rerr = rec.Exec(fmt.Sprintf("insert into %s(k) values (-777)", t)); rerr != nil {
					rerr = fmt.Errorf("write after recovery: %w", rerr)
					return
				}
			})
			if rerr != nil {
				x.Fail("C04-recovery-rw", "%s (%s): %v", s.label, p.Kind, rerr)
				return
			}
			if RowsString(rwRows) != got {
				x.Fail("C04-recovery-rw", "%s (%s): read-write recovery shows %s, read-only recovery showed %s", s.label, p.Kind, RowsString(rwRows), got)
				return
			}
			finalRows, err = readRO(s.label + " +write")
			if err != nil {
				x.Fail("C04-recovery-open", "%s (%s), after recovery write: %v", s.label, p.Kind, err)
				return
			}
			want := append([][]string{append([]string{"i:-777"}, nulls(len(mp.Cols))...)}, rows...)
			if RowsString(finalRows) != RowsString(want) {
				x.Fail("C04-recovery-rw", "%s (%s): after recovery and one more insert: %s, expected %s", s.label, p.Kind, RowsString(finalRows), RowsString(want))
				return
			}
		}
		x.ProbeN("crash-points", len(snaps))
	})
}

func nulls(n int) []string {
	out := make([]string, n)
	for i := range out {
		out[i] = "null"
	}
	return out
}
