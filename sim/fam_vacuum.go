package sim

// C09 (vacuum never changes what the table contains; retained versions stay
// intact; every crash point inside vacuum) and C10 (vacuum reclaims exactly
// what the cutoff allows; idempotent; kept delete markers still win).

import (
	"fmt"
	"math/rand/v2"
	"sort"
	"strings"
	"time"
)

type VacSpec struct {
	Client  int    `json:"client"`
	Kind    string `json:"kind"` // created | deleted | past | future | now
	Idx     int    `json:"idx,omitempty"`
	Delta   int64  `json:"delta,omitempty"` // ns added to the reference time
	Refresh bool   `json:"refresh,omitempty"`
	ReadErr int    `json:"read_err,omitempty"` // C10: the n-th GET of the vacuum fails cleanly (0 = none)
	DelErr  int    `json:"del_err,omitempty"`  // the n-th DELETE of the vacuum fails (0 = none): the vacuum is interrupted inside its delete phase, then repeated
	DelLost bool   `json:"del_lost,omitempty"` // ... after having been applied (response lost) instead of cleanly
}

type VacParams struct {
	MW      MWParams  `json:"mw"`
	Vacuums []VacSpec `json:"vacuums"`
	Late    bool      `json:"late"` // C10: a writer that opened before the history commits an older write after the vacuum
}

func genVac(r *rand.Rand) *VacParams {
	mw := GenMW(r, MWGenOpts{MaxClients: 3, MaxStmts: 10, MaxKeys: 4, MaxCols: 2, Txns: true, Advance: true, Skew: true})
	mw.EPN = []int{2, 2, 3, 4, 0}[r.IntN(5)]
	mw.Inter = 0
	mw.ViewAfterCommit = true
	// bias towards deletes and re-inserts (content returns to earlier states; nodes shared by old and new versions)
	for i := range mw.Scripts {
		for j := range mw.Scripts[i] {
			op := &mw.Scripts[i][j]
			if op.Op == "update" && r.IntN(3) == 0 {
				op.Op = "delete"
				op.Set = nil
			}
		}
	}
	deep := r.IntN(4) == 0
	if deep {
		// recurring content in a tree of several nodes: one writer loads 6..20 rows, then adds one or two rows
		// and deletes them again, each in its own version; purging the markers returns the tree to the
		// loaded content, node for node, while an older version that still has the markers is retained
		// next to the current one. Nodes dropped between two condemned versions are in use again.
		mw.EPN = []int{2, 3, 4}[r.IntN(3)]
		n := 6 + r.IntN(15)
		var sc []MWOp
		id := 0
		next := func(op MWOp) MWOp {
			id++
			op.ID, op.WT = id, int64(id)*int64(time.Millisecond)+int64(r.IntN(1000))
			return op
		}
		sc = append(sc, MWOp{Op: "begin"})
		for i := 0; i < n; i++ {
			sc = append(sc, next(MWOp{Op: "insert", Key: 1 + 2*i, Set: map[string]int{mw.Cols[0]: genVal(r, id+1, 0)}}))
		}
		sc = append(sc, MWOp{Op: "commit"})
		for j, m := 0, 1+r.IntN(2); j < m; j++ {
			x := []int{2 * n * 2, 0, 2 * (1 + r.IntN(n-1)), 1000 + j}[r.IntN(4)]
			sc = append(sc, next(MWOp{Op: "insert", Key: x, Set: map[string]int{mw.Cols[0]: genVal(r, id+1, 0)}}))
			if r.IntN(2) == 0 {
				sc = append(sc, MWOp{Op: "advance", Dur: []int64{1, 1e6, 1e9}[r.IntN(3)]})
			}
			sc = append(sc, next(MWOp{Op: "delete", Key: x}))
		}
		if r.IntN(3) == 0 {
			sc = append(sc, next(MWOp{Op: "update", Key: 1 + 2*r.IntN(n), Set: map[string]int{mw.Cols[0]: genVal(r, id+1, 0)}}))
		}
		mw.Scripts = [][]MWOp{sc}
		mw.Skew = nil
	}
	folded := !deep && len(mw.Scripts) >= 2 && r.IntN(4) == 0
	if folded {
		// a delete folded into an entry that carries a later time: two writers insert the same key, one
		// deletes it, the other - not having seen the delete - updates it later. After merging, the row is
		// deleted as of the delete's time while its entry is as recent as the update; a cutoff between the two
		// covers the delete.
		base := int64(r.IntN(3))*int64(time.Second) + 300*int64(time.Millisecond)
		at := func(j int) int64 { return base + int64(j)*100*int64(time.Millisecond) + int64(r.IntN(1000)) }
		col := mw.Cols[0]
		a, b := 0, 1
		if r.IntN(2) == 0 {
			a, b = 1, 0
		}
		mw.Scripts[a] = append(mw.Scripts[a],
			MWOp{Op: "insert", ID: 901, Key: 77, WT: at(0), Set: map[string]int{col: 9010}},
			MWOp{Op: "delete", ID: 903, Key: 77, WT: at(2)})
		mw.Scripts[b] = append(mw.Scripts[b],
			MWOp{Op: "insert", ID: 902, Key: 77, WT: at(1), Set: map[string]int{col: 9020}},
			MWOp{Op: "update", ID: 904, Key: 77, WT: at(3), Set: map[string]int{col: 9040}})
	}
	p := &VacParams{MW: *mw, Late: r.IntN(2) == 0}
	nv := 1 + r.IntN(3)
	for i := 0; i < nv; i++ {
		v := VacSpec{Client: r.IntN(len(mw.Scripts)), Kind: []string{"created", "created", "deleted", "deleted", "past", "future", "now", "far"}[r.IntN(8)],
			Idx: r.IntN(12), Delta: []int64{0, 0, 1, -1, int64(time.Second), -int64(time.Second), int64(time.Millisecond)}[r.IntN(7)], Refresh: r.IntN(2) == 0}
		if r.IntN(5) == 0 {
			v.ReadErr = 1 + r.IntN(10)
		} else if r.IntN(3) == 0 {
			v.DelErr = 1 + r.IntN(6)
			v.DelLost = r.IntN(2) == 0
		}
		if folded && i == 0 && r.IntN(2) == 0 {
			v.Kind, v.Delta, v.Refresh = "deleted", []int64{1, 1, int64(time.Millisecond)}[r.IntN(3)], true
		}
		if deep {
			v.Client = 0
			if i == 0 && r.IntN(3) != 0 {
				v.Kind, v.Delta = "now", 0
			}
		}
		p.Vacuums = append(p.Vacuums, v)
	}
	return p
}

func init() {
	Register(&Family{Property: "C09", Name: "vacuum-preserves", Gen: func(r *rand.Rand, tier string) interface{} { return genVac(r) }, Run: func(x *Exec) { runVacuum(x, "C09") }})
	Register(&Family{Property: "C10", Name: "vacuum-reclaims", Gen: func(r *rand.Rand, tier string) interface{} { return genVac(r) }, Run: func(x *Exec) { runVacuum(x, "C10") }})
}

func runVacuum(x *Exec, prop string) {
	var p VacParams
	if !x.Params(&p) || !p.MW.Valid() || len(p.Vacuums) == 0 || len(p.Vacuums) > 5 {
		x.Invalid()
		return
	}
	for _, v := range p.Vacuums {
		if v.Client < 0 || v.Client >= len(p.MW.Scripts) || v.Idx < 0 {
			x.Invalid()
			return
		}
	}
	x.Bubble(func(w *World) {
		mp := &p.MW
		mp.ViewAfterCommit = true
		w.Policy = mp.Policy
		m := NewMWRun(x, w, mp)
		InstallImmutability(w, x, m.Lay)
		cols := mp.AllCols()
		var writers []*Client
		for i := range mp.Scripts {
			writers = append(writers, w.NewClient(fmt.Sprintf("c%d", i)))
		}
		rec := w.NewClient("rec")
		late := w.NewClient("late")
		for _, c := range append(append([]*Client{}, writers...), late) {
			var err error
			w.Solo(c, func() { err = m.OpenTable(c, false) })
			if err != nil {
				x.Fail(prop+"-unexpected-error", "open: %v", err)
				return
			}
		}
		for i, c := range writers {
			c, script := c, mp.Scripts[i]
			w.Go(c, func() { m.RunScript(c, script) })
		}
		w.Run()
		w.CheckPanics()
		if w.Viol != nil || x.Failed() {
			return
		}
		if len(m.Errs) > 0 {
			x.Fail(prop+"-unexpected-error", "%s", strings.Join(m.Errs, "; "))
			return
		}
		w.AdvanceClock(3 * time.Second)
		// recorded rows per single version name (O-cat)
		recorded := map[string][][]string{}
		for _, v := range m.Views {
			if len(v.Pending) == 0 && len(v.Versions) == 1 {
				recorded[v.Versions[0]] = v.Rows
			}
		}
		// reference times for cutoffs
		var createdTimes, deleteTimes []time.Time
		for _, name := range sortedVerNames(m.VerObj) {
			if c := m.VerObj[name].Created; c != nil {
				createdTimes = append(createdTimes, *c)
			}
		}
		var ids []int
		for id := range m.Accepted {
			ids = append(ids, id)
		}
		sort.Ints(ids)
		for _, id := range ids {
			if s := m.Accepted[id]; s.Kind == "delete" {
				deleteTimes = append(deleteTimes, time.Unix(0, s.WT))
			}
		}
		x.ProbeN("history-has-deletes", b2i(len(deleteTimes) > 0))
		cutoffOf := func(v VacSpec) time.Time {
			switch v.Kind {
			case "created":
				if len(createdTimes) > 0 {
					return createdTimes[v.Idx%len(createdTimes)].Add(time.Duration(v.Delta))
				}
			case "deleted":
				if len(deleteTimes) > 0 {
					return deleteTimes[v.Idx%len(deleteTimes)].Add(time.Duration(v.Delta))
				}
			case "past":
				return T0.Add(-24 * time.Hour)
			case "future":
				return time.Now().Add(1000 * time.Hour)
			case "far":
				// beyond what fits into 64 bits of nanoseconds since 1970 (2262-04-11)
				return time.Date(2300+v.Idx*40, 1, 1, 0, 0, 0, 0, time.UTC)
			}
			return time.Now().Add(time.Duration(v.Delta))
		}
		readRO := func() ([][]string, error) {
			var rows [][]string
			var err error
			rec.Restart()
			w.Solo(rec, func() {
				t := w.TableName("rec")
				if _, err = rec.Exec(rec.CreateSQL(t, m.tableOpts(true))); err != nil {
					return
				}
				rows, err = rec.Query("select * from " + t)
			})
			return rows, err
		}
		succ := func() map[string][]string {
			s := map[string][]string{}
			for name, r := range m.VerObj {
				for _, par := range r.Parents {
					s[par] = append(s[par], name)
				}
			}
			return s
		}
		var cstar time.Time
		condemned := func(name string, cut time.Time, strict bool) bool {
			ss := succ()[name]
			if len(ss) == 0 {
				return false
			}
			for _, s := range ss {
				c := m.VerObj[s].Created
				if c == nil {
					return false
				}
				if strict && !c.Before(cut) {
					return false
				}
				if !strict && c.After(cut) {
					return false
				}
			}
			return true
		}
		// every version that is present and not condemned under the greatest cutoff used must be intact
		checkIntact := func(bucket map[string][]byte, when string) bool {
			cur, mer := m.Lay.Versions(bucket)
			for _, name := range append(append([]string{}, cur...), mer...) {
				if _, ok := m.VerObj[name]; !ok {
					continue
				}
				// The property protects versions created at or after the cutoff, and whatever is
				// current. Older superseded versions that are still lying around (vacuum deletes
				// nodes before version objects; a branch the vacuuming handle never merged) need
				// not be readable.
				isCur := false
				for _, c := range cur {
					isCur = isCur || c == name
				}
				if cr := m.VerObj[name].Created; !isCur && !cstar.IsZero() && (cr == nil || cr.Before(cstar)) {
					// (the stamp the version carries says it is older than the cutoff; what the committing client's
					// clock showed when it issued the committing statement must not say otherwise)
					if st, ok := m.StmtStart[name]; !ok || st.Before(cstar) {
						x.Probe("old-version-still-present")
						continue
					}
				}
				x.Check()
				wt, err := m.Lay.WalkVersion(bucket, name)
				if err != nil || !wt.OK() {
					x.Fail("C09-retained-version-damaged", "%s: version %s is current or was created at/after the cutoff %s but refers to deleted objects: %v %s",
						when, name, FmtTime(cstar), err, wt.Err())
					return false
				}
				if rows, ok := recorded[name]; ok {
					if got := RowsString(wt.Rows(cols, 0)); got != RowsString(rows) {
						x.Fail("C09-retained-version-changed", "%s: version %s now holds %s, showed %s when taken", when, name, got, RowsString(rows))
						return false
					}
				}
				x.Probe("retained-version-walked")
			}
			return true
		}
		interrupted := "" // class suffix when this vacuum was cut short inside its delete phase, by where it stopped
		for vi, vs := range p.Vacuums {
			if x.Failed() || w.Viol != nil {
				return
			}
			// (per vacuum: what an interrupted and then repeated vacuum leaks is judged against the bucket before
			// that vacuum; the version objects that led to the leaked nodes are gone afterwards, so a later
			// vacuum neither sees nor is blamed for it)
			interrupted = ""
			vc := writers[vs.Client]
			t := m.Tables[vc.Name]
			last := vi == len(p.Vacuums)-1
			if vs.Refresh || vi > 0 {
				// (after an earlier vacuum a connection that has not refreshed may hold a version
				// that was legitimately reclaimed: the documented 'no such object' signal)
				var err error
				w.Solo(vc, func() { _, err = vc.Query("select s3db_refresh(?)", t) })
				if err != nil {
					x.Fail(prop+"-unexpected-error", "refresh before vacuum: %v", err)
					return
				}
			}
			cut := cutoffOf(vs)
			var rowsBefore, rowsAfter [][]string
			var versBefore, versAfter []string
			var verr error
			var vres [][]string
			readErrFired, delErrFired := false, false
			allBefore, err := readRO()
			if err != nil {
				x.Fail(prop+"-unexpected-error", "read before vacuum: %v", err)
				return
			}
			base := CopyBucket(w.S.Bucket)
			m0 := len(w.S.Mut)
			w.Solo(vc, func() {
				rowsBefore, _ = vc.Query("select * from " + t)
				versBefore, _ = vc.Versions(t)
				m.BeginStmt(vc)
				if prop == "C10" && vs.ReadErr > 0 {
					w.Faults = []*FaultSpec{{Client: vc.Name, Op: OpGet, Nth: vs.ReadErr, Kind: FaultErr}}
				} else if vs.DelErr > 0 {
					// the n-th DELETE of the delete phase (node objects, then version objects under merged/); the
					// DELETE under current/ that retires the parent of the purge commit is not counted: the code
					// ignores its outcome by design
					seen, versionsGone := 0, 0
					w.OnDeliver = func(r *Request) Fault {
						if r.H.Client != vc.Name || r.Op != OpDelete || (r.Class() != "node" && r.Class() != "merged") {
							return FaultNone
						}
						seen++
						if seen != vs.DelErr {
							if seen < vs.DelErr && r.Class() == "merged" {
								versionsGone++
							}
							return FaultNone
						}
						delErrFired = true
						// where the attempt stopped, structurally: among the node deletes with every version object
						// still stored (all the unchanged code can do there), or later
						if r.Class() != "node" || versionsGone > 0 {
							interrupted = "-after-interrupted-vacuum"
						} else {
							interrupted = "-after-interrupted-node-deletes"
						}
						if vs.DelLost {
							return FaultLostReply
						}
						return FaultErr
					}
				}
				vres, verr = vc.Query("select * from s3db_vacuum(?, ?)", t, FmtTime(cut))
				if len(w.Faults) > 0 {
					readErrFired = w.Faults[0].Fired > 0
					w.Faults = nil
				}
				w.OnDeliver = nil
				rowsAfter, _ = vc.Query("select * from " + t)
				versAfter, _ = vc.Versions(t)
			})
			w.CheckPanics()
			if w.Viol != nil {
				return
			}
			desc := fmt.Sprintf("vacuum %d by %s with cutoff %s", vi, vc.Name, FmtTime(cut))
			if verr == nil && len(vres) == 1 && strings.Contains(vres[0][0], "s3db_refresh") {
				// refused: other writers' versions are not merged into this handle; nothing may have changed
				x.Probe("vacuum-refused-unmerged-versions")
				x.Check()
				if len(w.S.Mut) != m0 {
					x.Fail("C09-refused-vacuum-wrote", "%s was refused (%s) but issued %v", desc, vres[0][0], mutKeys(w.S.Mut[m0:]))
					return
				}
				continue
			}
			if readErrFired && (verr != nil || len(vres) != 1 || vres[0][0] != "null") {
				// a vacuum that could not read something may fail; it then has deleted nothing it could not account
				// for, and the same vacuum without the fault does the whole job (checked like any other below)
				x.Probe("vacuum-failed-on-read-error")
				w.Solo(vc, func() {
					m.BeginStmt(vc)
					vres, verr = vc.Query("select * from s3db_vacuum(?, ?)", t, FmtTime(cut))
					rowsAfter, _ = vc.Query("select * from " + t)
					versAfter, _ = vc.Versions(t)
				})
			} else if readErrFired {
				x.Probe("vacuum-succeeded-despite-read-error")
			}
			if delErrFired {
				// The vacuum was cut short inside its delete phase by a failing DELETE. That is one of the crash
				// points as far as the bucket goes, but here the process lives on: the statement must have failed,
				// the table is what it was, retained versions are intact, and repeating the vacuum finishes the job
				// (checked below against the bucket as it was before the interrupted attempt).
				x.Check()
				if verr == nil && len(vres) == 1 && vres[0][0] == "null" {
					x.Fail(prop+"-vacuum-hid-delete-error", "%s reported success although its DELETE number %d failed", desc, vs.DelErr)
					return
				}
				x.Probe("vacuum-interrupted-in-delete-phase")
				if cut.After(cstar) {
					cstar = cut
				}
				mid, err := readRO()
				if err != nil {
					x.Fail("C09-unreadable", "%s was interrupted by a failing DELETE, then a fresh read-only open fails: %v", desc, err)
					return
				}
				if RowsString(mid) != RowsString(allBefore) {
					x.Fail("C09-rows-changed", "%s, interrupted by a failing DELETE, changed what a fresh connection sees: %s -> %s", desc, RowsString(allBefore), RowsString(mid))
					return
				}
				if RowsString(rowsBefore) != RowsString(rowsAfter) {
					x.Fail("C09-rows-changed", "%s, interrupted by a failing DELETE, changed the rows on its own connection: %s -> %s", desc, RowsString(rowsBefore), RowsString(rowsAfter))
					return
				}
				if !checkIntact(w.S.Bucket, "after "+desc+" was interrupted by a failing DELETE") {
					return
				}
				w.Solo(vc, func() {
					m.BeginStmt(vc)
					vres, verr = vc.Query("select * from s3db_vacuum(?, ?)", t, FmtTime(cut))
					rowsAfter, _ = vc.Query("select * from " + t)
					versAfter, _ = vc.Versions(t)
				})
				if verr != nil || len(vres) != 1 || vres[0][0] != "null" {
					x.Fail(prop+"-vacuum-failed-after-interrupted-vacuum", "%s was interrupted by a failing DELETE; the same vacuum repeated without any fault fails: %v %s", desc, verr, RowsString(vres))
					return
				}
				x.Probe("interrupted-vacuum-repeated")
			}
			if verr != nil || len(vres) != 1 || vres[0][0] != "null" {
				x.Fail(prop+"-vacuum-failed", "%s failed without any fault: %v %s", desc, verr, RowsString(vres))
				return
			}
			if cut.After(cstar) {
				cstar = cut
			}
			vm := append([]Mutation(nil), w.S.Mut[m0:]...)
			nodeDel, verDel := 0, 0
			for _, mu := range vm {
				if mu.Op == OpDelete && strings.HasPrefix(mu.Key, m.Lay.Node) {
					nodeDel++
				}
				if mu.Op == OpDelete && strings.HasPrefix(mu.Key, m.Lay.Merged) {
					verDel++
				}
			}
			x.ProbeN("vacuum-deleted-node", b2i(nodeDel > 0))
			x.ProbeN("vacuum-deleted-version", b2i(verDel > 0))
			x.Check()
			if RowsString(rowsBefore) != RowsString(rowsAfter) {
				x.Fail("C09-rows-changed", "%s changed the rows on its own connection: %s -> %s", desc, RowsString(rowsBefore), RowsString(rowsAfter))
				return
			}
			for _, v := range versAfter {
				// what the connection names as its version after the vacuum is a version somebody can open
				x.Check()
				_, cur := w.S.Bucket[m.Lay.Current+v]
				_, mer := w.S.Bucket[m.Lay.Merged+v]
				if !cur && !mer {
					x.Fail("C09-reported-version-missing", "%s succeeded; s3db_version() on the vacuuming connection then names %s, which is stored neither under current/ nor under merged/", desc, v)
					return
				}
			}
			allAfter, err := readRO()
			if err != nil {
				x.Fail("C09-unreadable", "%s succeeded, then a fresh read-only open fails: %v", desc, err)
				return
			}
			if RowsString(allAfter) != RowsString(allBefore) {
				x.Fail("C09-rows-changed", "%s changed what a fresh connection sees: %s -> %s", desc, RowsString(allBefore), RowsString(allAfter))
				return
			}
			if !checkIntact(w.S.Bucket, "after "+desc) {
				return
			}
			x.Sig(vi, len(vm))
			if prop == "C10" {
				if !checkReclaimed(x, m, base, w.S.Bucket, versBefore, versAfter, cut, desc, condemned, interrupted) {
					return
				}
				// repeating the same vacuum changes nothing
				before2 := len(w.S.Mut)
				snap := bucketDigest(w.S.Bucket)
				var v2 [][]string
				var e2 error
				w.Solo(vc, func() { v2, e2 = vc.Query("select * from s3db_vacuum(?, ?)", t, FmtTime(cut)) })
				x.Check()
				if e2 != nil || len(v2) != 1 || v2[0][0] != "null" {
					x.Fail("C10-not-idempotent", "repeating %s fails: %v %s", desc, e2, RowsString(v2))
					return
				}
				if after := bucketDigest(w.S.Bucket); after != snap {
					x.Fail("C10-not-idempotent", "repeating %s changed the bucket: requests %v", desc, mutKeys(w.S.MutBy(vc.Name, before2)))
					return
				}
				for _, mu := range w.S.MutBy(vc.Name, before2) {
					if mu.Op == OpPut {
						x.Fail("C10-not-idempotent", "repeating %s wrote %s", desc, mu.Key)
						return
					}
				}
				x.Probe("second-identical-vacuum")
			}
			if prop == "C09" && last && len(vm) > 0 {
				// every crash point inside this vacuum
				final := CopyBucket(w.S.Bucket)
				for k := 0; k <= len(vm); k++ {
					if x.Failed() {
						return
					}
					x.Check()
					w.S.Bucket = BucketAt(base, vm, k)
					when := fmt.Sprintf("crash after %d of %d requests of %s", k, len(vm), desc)
					rows, err := readRO()
					if err != nil {
						x.Fail("C09-unreadable", "%s: a fresh open fails: %v", when, err)
						return
					}
					if RowsString(rows) != RowsString(allBefore) {
						x.Fail("C09-rows-changed", "%s: a fresh open sees %s, before the vacuum %s", when, RowsString(rows), RowsString(allBefore))
						return
					}
					if !checkIntact(w.S.Bucket, when) {
						return
					}
					// read-write recovery and a further write
					var rerr error
					rec.Restart()
					w.Solo(rec, func() {
						rt := w.TableName("recrw")
						if _, rerr = rec.Exec(rec.CreateSQL(rt, m.tableOpts(false))); rerr != nil {
							return
						}
						rec.SetWriteTime(int64(time.Since(T0)) + int64(time.Hour))
						_, rerr = rec.Exec(fmt.Sprintf("insert into %s(k) values (-555)", rt))
					})
					if rerr != nil {
						x.Fail("C09-not-writable", "%s: read-write recovery: %v", when, rerr)
						return
					}
					x.Probe("vacuum-crash-point")
				}
				w.S.Bucket = final
			}
		}
		if prop == "C10" && p.Late && len(deleteTimes) > 0 && !x.Failed() {
			// a late, older write is merged after the vacuum: a kept delete marker must still win
			vc := writers[p.Vacuums[len(p.Vacuums)-1].Client]
			t := m.Tables[vc.Name]
			var wt *WTree
			var vers []string
			w.Solo(vc, func() {
				vc.Query("select s3db_refresh(?)", t)
				vers, _ = vc.Versions(t)
			})
			if len(vers) == 1 {
				wt, _ = m.Lay.WalkVersion(w.S.Bucket, vers[0])
			}
			if wt != nil && wt.OK() {
				for _, e := range wt.Entries {
					if e.Tomb == 0 && e.HasRow && e.Deleted && e.Key.T == 1 {
						key := e.Key.I
						older := e.StatusTime() - int64(time.Millisecond)
						var lerr error
						var n int64
						w.Solo(late, func() {
							late.SetWriteTime(older - T0.UnixNano())
							n, lerr = late.Exec(fmt.Sprintf("insert into %s(k) values (?)", m.Tables["late"]), key)
						})
						if lerr != nil || n == 0 {
							break
						}
						var rows [][]string
						w.Solo(vc, func() {
							vc.Query("select s3db_refresh(?)", t)
							rows, _ = vc.Query("select * from "+t+" where k=?", key)
						})
						x.Check()
						if len(rows) != 0 {
							x.Fail("C10-marker-lost", "row %d was deleted at %s and its delete marker survived the vacuum, but an INSERT with the older write time %s merged afterwards brought it back: %s",
								key, time.Unix(0, e.StatusTime()).UTC().Format(wtLayout), time.Unix(0, older).UTC().Format(wtLayout), RowsString(rows))
							return
						}
						x.Probe("late-older-write-stays-deleted")
						break
					}
				}
			}
		}
		if len(m.Own) >= 3 {
			x.Nontrivial()
		}
		x.Sig(LogHash(w.S.Log))
	})
}

func sortedVerNames(m map[string]*RootInfo) []string {
	var s []string
	for k := range m {
		s = append(s, k)
	}
	sort.Strings(s)
	return s
}

func bucketDigest(b map[string][]byte) string {
	var sb strings.Builder
	for _, k := range SortedKeys(b) {
		fmt.Fprintf(&sb, "%s=%d;", k, len(b[k]))
	}
	return sb.String()
}

// checkReclaimed: C10 (1) row side and (2) version side.
func checkReclaimed(x *Exec, m *MWRun, before, after map[string][]byte, versBefore, versAfter []string, cut time.Time, desc string,
	condemned func(name string, cut time.Time, strict bool) bool, sfx string) bool {
	// (1) rows deleted before the cutoff no longer occupy the table; later deletes keep their marker
	if len(versBefore) == 1 && len(versAfter) == 1 {
		pre, err1 := m.Lay.WalkVersion(before, versBefore[0])
		post, err2 := m.Lay.WalkVersion(after, versAfter[0])
		if err1 == nil && err2 == nil && pre.OK() && post.OK() {
			postBy := map[string]*WEntry{}
			for _, e := range post.Entries {
				postBy[e.Key.Canon()] = e
			}
			for _, e := range pre.Entries {
				if e.Tomb != 0 || !e.HasRow || !e.Deleted {
					continue
				}
				x.Check()
				st := time.Unix(0, e.StatusTime())
				pe := postBy[e.Key.Canon()]
				if st.Before(cut) && pe != nil {
					x.Fail("C10-not-purged", "%s: row %s was deleted at %s, before the cutoff, but still occupies the table", desc, e.Key.Canon(), st.UTC().Format(wtLayout))
					return false
				}
				if !st.Before(cut) && (pe == nil || !pe.Deleted || pe.StatusTime() != e.StatusTime()) {
					x.Fail("C10-marker-dropped", "%s: row %s was deleted at %s, at or after the cutoff, but its delete marker is gone or changed", desc, e.Key.Canon(), st.UTC().Format(wtLayout))
					return false
				}
				if st.Before(cut) {
					x.Probe("deleted-row-purged")
				} else {
					x.Probe("delete-marker-kept")
				}
			}
		}
	}
	// (2) ancestors of the vacuuming view superseded strictly before the cutoff are gone, with the objects only they needed
	anc := map[string]bool{}
	var rec func(v string)
	rec = func(v string) {
		if anc[v] {
			return
		}
		anc[v] = true
		if r := m.VerObj[v]; r != nil {
			for _, p := range r.Parents {
				rec(p)
			}
		}
	}
	for _, v := range versAfter {
		rec(v)
	}
	dead := map[string]bool{}
	for v := range anc {
		if !condemned(v, cut, true) {
			continue
		}
		x.Check()
		if _, ok := after[m.Lay.Merged+v]; ok {
			x.Fail("C10-version-not-reclaimed"+sfx, "%s: version %s was superseded before the cutoff (all successors created earlier) but is still stored under merged/", desc, v)
			return false
		}
		x.Probe("superseded-version-gone")
		if wt, err := m.Lay.WalkVersion(before, v); err == nil {
			for n := range wt.Nodes {
				dead[n] = true
			}
		}
	}
	// ... and nothing else: a version that still had a successor created after the cutoff was
	// not superseded before it (equality with the cutoff is left to the boundary the code documents)
	for k := range before {
		if !strings.HasPrefix(k, m.Lay.Merged) {
			continue
		}
		if _, still := after[k]; still {
			continue
		}
		v := strings.TrimPrefix(k, m.Lay.Merged)
		if _, ok := m.VerObj[v]; !ok {
			continue
		}
		x.Check()
		if !condemned(v, cut, false) {
			x.Fail("C10-version-over-reclaimed", "%s: version %s has a successor created after the cutoff (or none at all) but its object under merged/ was deleted", desc, v)
			return false
		}
		for name, r := range m.VerObj {
			for _, par := range r.Parents {
				if st, ok := m.StmtStart[name]; ok && par == v && st.After(cut) {
					x.Fail("C10-version-over-reclaimed", "%s: version %s was deleted although its successor %s was committed by a statement issued at %s (by the committing client's clock), after the cutoff; the successor's stamp says %s",
						desc, v, name, FmtTime(st), FmtTime(*r.Created))
					return false
				}
			}
		}
		x.Probe("reclaimed-version-was-superseded-before-cutoff")
	}
	live := map[string]bool{}
	cur, mer := m.Lay.Versions(after)
	for _, v := range append(append([]string{}, cur...), mer...) {
		if wt, err := m.Lay.WalkVersion(after, v); err == nil {
			for n := range wt.Nodes {
				live[n] = true
			}
		}
	}
	for n := range dead {
		if live[n] {
			continue
		}
		x.Check()
		if _, ok := after[m.Lay.Node+n]; ok {
			x.Fail("C10-node-not-reclaimed"+sfx, "%s: node %s was needed only by versions superseded before the cutoff but is still stored", desc, n)
			return false
		}
		x.Probe("orphan-node-gone")
	}
	return true
}
