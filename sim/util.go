package sim

import (
	"math"
	"os"
	"strconv"
)

func envInt(name string, def int64) int64 {
	if s := os.Getenv(name); s != "" {
		if v, err := strconv.ParseInt(s, 10, 64); err == nil {
			return v
		}
	}
	return def
}

func mathFloat64bits(f float64) uint64 { return math.Float64bits(f) }
