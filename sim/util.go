package sim

import "math"

func mathFloat64bits(f float64) uint64 { return math.Float64bits(f) }
