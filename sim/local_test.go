package sim

import (
	"encoding/json"
	"fmt"
	"os"
	"runtime"
	"testing"
	"time"
)

// TestLocal: developer loop. VERIF_L_PROP, VERIF_L_N
func TestLocal(t *testing.T) {
	prop := os.Getenv("VERIF_L_PROP")
	if prop == "" {
		t.Skip()
	}
	if rp := os.Getenv("VERIF_L_REPLAY"); rp != "" {
		p, err := LoadProgram(rp)
		if err != nil {
			t.Fatal(err)
		}
		res := Execute(t, p)
		b, _ := json.MarshalIndent(res, "", " ")
		t.Logf("%s", b)
		return
	}
	n := envInt("VERIF_L_N", 100)
	fails := map[string]int{}
	nontriv := 0
	hashes := map[string]bool{}
	probes := map[string]int{}
	for i := envInt("VERIF_L_FIRST", 0); i < n; i++ {
		p := Generate(prop, RunSeed(prop, envInt("VERIF_SEED", 1), i), "quick", os.Getenv("VERIF_FAMILY"))
		res := Execute(t, p)
		if res.Nontrivial {
			nontriv++
		}
		if os.Getenv("VERIF_L_TIME") != "" && i%50 == 0 {
			var ms runtime.MemStats
			runtime.ReadMemStats(&ms)
			t.Logf("i=%d wall=%dms goroutines=%d heap=%dMB", i, res.WallMs, runtime.NumGoroutine(), ms.HeapAlloc>>20)
		}
		if os.Getenv("VERIF_L_HASH") != "" {
			t.Logf("seed %d hash %s events %d steps %d checks %d", res.Seed, res.LogHash, res.Events, res.Steps, res.Checks)
		}
		hashes[res.Sig] = true
		for k, v := range res.Probes {
			probes[k] += v
		}
		if res.Violation != nil {
			fails[res.Violation.Class]++
			if d := os.Getenv("VERIF_L_DUMP"); d != "" && fails[res.Violation.Class] <= 2 {
				q, _ := Shrink(t, res.Program, 20*time.Second)
				SaveProgram(fmt.Sprintf("%s/%s-%s-%d.json", d, prop, os.Getenv("VERIF_L_TAG"), res.Seed), q)
				t.Logf("shrunk: %s", q.Expect.Detail)
			}
			if fails[res.Violation.Class] <= int(envInt("VERIF_L_SHOW", 1)) {
				b, _ := json.Marshal(res.Program)
				t.Logf("seed %d: %s\n%s\nprogram: %s", res.Seed, res.Violation.Class, res.Violation.Detail, b)
			}
		}
	}
	t.Logf("runs=%d nontrivial=%d distinct=%d fails=%v probes=%v", n, nontriv, len(hashes), fails, probes)
}
