package sim

// C16: every committed version is complete and well-formed on its own;
// stored objects are immutable; committing when nothing changed writes nothing.

import (
	"bytes"
	"fmt"
	"math/rand/v2"
	"strings"
)

func init() {
	Register(&Family{Property: "C16", Name: "commit-walk", Gen: func(r *rand.Rand, tier string) interface{} {
		p := GenMW(r, MWGenOpts{MaxClients: 2, MaxStmts: 14, MaxKeys: 8, MaxCols: 2, Retries: false, Decreasing: false, Txns: true, Noops: true})
		if r.IntN(2) == 0 {
			// single writer: fresh-process scans after every commit are comparable
			all := []MWOp{}
			for _, s := range p.Scripts {
				all = append(all, s...)
			}
			p.Scripts = [][]MWOp{fixTxns(all)}
			p.Inter = 0
		}
		p.EPN = []int{2, 2, 3, 4, 8}[r.IntN(5)]
		return p
	}, Run: runC16})
}

// fixTxns makes begin/commit well-nested after concatenating scripts.
func fixTxns(ops []MWOp) []MWOp {
	var out []MWOp
	in := false
	for _, op := range ops {
		switch op.Op {
		case "begin":
			if in {
				continue
			}
			in = true
		case "commit", "rollback":
			if !in {
				continue
			}
			in = false
		case "refresh", "reopen", "noop-update", "noop-delete", "noop-txn", "noop-refresh":
			if in {
				continue
			}
		}
		out = append(out, op)
	}
	if in {
		out = append(out, MWOp{Op: "commit"})
	}
	return out
}

// InstallImmutability adds the online invariant "a stored name is never
// re-written with different bytes" to a world. merged/x may only receive the
// bytes current/x had.
func InstallImmutability(w *World, x *Exec, lay Layout) {
	everCurrent := map[string][]byte{}
	prev := w.S.Observer
	w.S.Observer = func(ev *Event, req *Request, before []byte, existed bool) {
		if prev != nil {
			prev(ev, req, before, existed)
		}
		if req.Op != OpPut || !ev.Applied {
			return
		}
		switch {
		case strings.HasPrefix(req.Key, lay.Node):
			if existed && !bytes.Equal(before, req.Body) {
				x.Fail("C16-mutated", "node object %s re-written with different bytes (event %d)", req.Key, ev.Seq)
			}
		case strings.HasPrefix(req.Key, lay.Current):
			name := strings.TrimPrefix(req.Key, lay.Current)
			if old, ok := everCurrent[name]; ok && !bytes.Equal(old, req.Body) {
				x.Fail("C16-mutated", "version object %s re-written with different bytes (event %d)", req.Key, ev.Seq)
			}
			everCurrent[name] = req.Body
		case strings.HasPrefix(req.Key, lay.Merged):
			name := strings.TrimPrefix(req.Key, lay.Merged)
			if old, ok := everCurrent[name]; !ok {
				x.Fail("C16-mutated", "retired version %s was never a current version", name)
			} else if !bytes.Equal(old, req.Body) {
				x.Fail("C16-mutated", "retired copy of version %s differs from the version as committed", name)
			}
		}
	}
}

func runC16(x *Exec) {
	var p MWParams
	if !x.Params(&p) || !p.Valid() {
		x.Invalid()
		return
	}
	x.Bubble(func(w *World) {
		w.Policy = p.Policy
		w.PermuteMerge = p.Perm
		m := NewMWRun(x, w, &p)
		InstallImmutability(w, x, m.Lay)
		single := len(p.Scripts) == 1 && p.Inter == 0
		cols := p.AllCols()
		fresh := 0
		m.AfterCommit = func(c *Client, version string) {
			if x.Failed() {
				return
			}
			t := m.Tables[c.Name]
			own, err := c.Query("select * from " + t)
			if err != nil {
				x.Fail("C16-read", "writer cannot read its own table after commit: %v", err)
				return
			}
			x.Check()
			wt, err := m.Lay.WalkVersion(w.S.Bucket, version)
			if err != nil {
				x.Fail("C16-incomplete", "acknowledged version %s: %v", version, err)
				return
			}
			if !wt.OK() {
				x.Fail("C16-incomplete", "acknowledged version %s is not readable from the bucket alone: %s", version, wt.Err())
				return
			}
			if got, want := RowsString(wt.Rows(cols, 0)), RowsString(own); got != want {
				x.Fail("C16-tree-differs", "version %s decodes to %s but the writer sees %s", version, got, want)
				return
			}
			x.ProbeN("tree-height>=1", b2i(wt.MaxDepth >= 1))
			x.ProbeN("tree-height>=2", b2i(wt.MaxDepth >= 2))
			sparse := false
			for name := range wt.Nodes {
				_ = name
			}
			_ = sparse
			if !single {
				return
			}
			// a fresh process with an empty cache
			fresh++
			f := w.NewPassiveClient("fresh")
			f.Open()
			defer f.CloseDB()
			ft := w.TableName("fresh")
			o := m.tableOpts(true)
			o.Cache = 0
			if _, err := f.Exec(f.CreateSQL(ft, o)); err != nil {
				x.Fail("C16-fresh-open", "fresh read-only open after acknowledged commit %s fails: %v", version, err)
				return
			}
			defer f.Exec("drop table " + ft)
			asc, err := f.Query("select * from " + ft + " order by k")
			if err != nil {
				x.Fail("C16-fresh-scan", "fresh ascending scan fails: %v", err)
				return
			}
			if RowsString(asc) != RowsString(own) {
				x.Fail("C16-fresh-scan", "fresh ascending scan %s != writer's view %s", RowsString(asc), RowsString(own))
				return
			}
			desc, err := f.Query("select * from " + ft + " order by k desc")
			if err != nil {
				x.Fail("C16-fresh-desc", "fresh descending scan fails: %v", err)
				return
			}
			rev := make([][]string, len(own))
			for i := range own {
				rev[len(own)-1-i] = own[i]
			}
			if RowsString(desc) != RowsString(rev) {
				x.Fail("C16-fresh-desc", "fresh descending scan %s != reverse of writer's view %s", RowsString(desc), RowsString(rev))
				return
			}
			present := map[string]bool{}
			for _, r := range own {
				present[r[0]] = true
				var k int64
				fmt.Sscanf(r[0], "i:%d", &k)
				one, err := f.Query("select * from "+ft+" where k=?", k)
				if err != nil || len(one) != 1 || strings.Join(one[0], ",") != strings.Join(r, ",") {
					x.Fail("C16-fresh-point", "fresh point lookup k=%d gives %s, %v; writer has %v", k, RowsString(one), err, r)
					return
				}
			}
			for _, k := range []int64{-1, 0, 5, 7, 1 << 40} {
				if present[fmt.Sprintf("i:%d", k)] {
					continue
				}
				one, err := f.Query("select * from "+ft+" where k=?", k)
				if err != nil || len(one) != 0 {
					x.Fail("C16-fresh-point", "fresh point lookup of absent k=%d gives %s, %v", k, RowsString(one), err)
					return
				}
			}
			x.Probe("fresh-process-scan")
		}
		var writers []*Client
		for i := range p.Scripts {
			c := w.NewClient(fmt.Sprintf("c%d", i))
			writers = append(writers, c)
			var err error
			w.Solo(c, func() { err = m.OpenTable(c, false) })
			if err != nil {
				x.Fail("C16-open", "writer %s cannot open: %v", c.Name, err)
				return
			}
		}
		for i, c := range writers {
			c, script := c, p.Scripts[i]
			w.Go(c, func() { m.RunScript(c, script) })
		}
		w.Run()
		w.CheckPanics()
		if w.Viol != nil || x.Failed() {
			return
		}
		if len(m.Errs) > 0 {
			x.Fail("C16-unexpected-error", "%s", strings.Join(m.Errs, "; "))
			return
		}
		if len(m.NoopWrote) > 0 {
			x.Fail("C16-noop-wrote", "%s", strings.Join(m.NoopWrote, "; "))
			return
		}
		// every version object still present must be complete (no vacuum in this family)
		cur, mer := m.Lay.Versions(w.S.Bucket)
		for _, v := range append(cur, mer...) {
			x.Check()
			wt, err := m.Lay.WalkVersion(w.S.Bucket, v)
			if err != nil || !wt.OK() {
				x.Fail("C16-incomplete", "version %s: %v %s", v, err, wt.Err())
				return
			}
		}
		x.Sig(len(w.S.Log), LogHash(w.S.Log))
		if len(m.Own) >= 2 {
			x.Nontrivial()
		}
	})
}
