package sim

// C16, second family: "immediately after a commit is acknowledged ... every
// object a version refers to exists" must also hold when the flush that
// preceded the acknowledgement met storage errors. One writer, small nodes,
// one clean or lost-response error on a chosen storage request of a chosen
// statement. The oracle is deliberately narrow: a statement that reports an
// error is allowed to have published nothing or something; a statement that
// reports success must have left a version that the independent walker and a
// fresh empty-cache process can read completely, and the two must agree.

import (
	"fmt"
	"math/rand/v2"
	"os"
	"strings"
)

type C16FOp struct {
	Kind string `json:"kind"` // insert delete update txn (insert of Keys in one transaction)
	Keys []int  `json:"keys"`
	Val  int    `json:"val"`
}

type C16FParams struct {
	EPN     int      `json:"epn"`
	Cache   int      `json:"cache"`
	Ops     []C16FOp `json:"ops"`
	FailOp  int      `json:"fail_op"`  // index of the statement whose storage requests are faulted
	FailNth int      `json:"fail_nth"` // which request of that statement (1-based)
	Kind    Fault    `json:"fault"`    // err or lost
	Persist bool     `json:"persistent,omitempty"`
	OnlyPut bool     `json:"only_put,omitempty"`
	Policy  string   `json:"policy"`
}

func init() {
	Register(&Family{Property: "C16", Name: "commit-fault", Gen: func(r *rand.Rand, tier string) interface{} {
		p := &C16FParams{EPN: []int{2, 2, 3, 4, 8}[r.IntN(5)], Cache: []int{0, 1, 4, 1000}[r.IntN(4)], Policy: []string{"fifo", "random"}[r.IntN(2)]}
		n := 2 + r.IntN(5)
		for i := 0; i < n; i++ {
			op := C16FOp{Val: i + 1}
			switch k := r.IntN(10); {
			case k < 4:
				op.Kind = "txn"
				for j, m := 0, 2+r.IntN(12); j < m; j++ {
					op.Keys = append(op.Keys, r.IntN(48))
				}
			case k < 7:
				op.Kind = "insert"
				op.Keys = []int{r.IntN(48)}
			case k < 9:
				op.Kind = "update"
				op.Keys = []int{r.IntN(48)}
			default:
				op.Kind = "delete"
				op.Keys = []int{r.IntN(48)}
			}
			p.Ops = append(p.Ops, op)
		}
		p.FailOp = r.IntN(n)
		p.FailNth = 1 + r.IntN(8)
		p.Kind = []Fault{FaultErr, FaultErr, FaultLostReply}[r.IntN(3)]
		p.Persist = r.IntN(4) == 0
		p.OnlyPut = r.IntN(2) == 0
		return p
	}, Run: runC16Fault})
}

func runC16Fault(x *Exec) {
	var p C16FParams
	if !x.Params(&p) || p.EPN == 1 || p.EPN < 0 || p.Cache < 0 || len(p.Ops) == 0 || len(p.Ops) > 10 ||
		p.FailOp < 0 || p.FailNth < 1 || (p.Kind != FaultErr && p.Kind != FaultLostReply) {
		x.Invalid()
		return
	}
	for _, op := range p.Ops {
		if len(op.Keys) == 0 || len(op.Keys) > 16 || !strings.Contains(" insert delete update txn ", " "+op.Kind+" ") {
			x.Invalid()
			return
		}
	}
	x.Bubble(func(w *World) {
		w.Policy = p.Policy
		lay := TableLayout("p")
		InstallImmutability(w, x, lay)
		c := w.NewClient("c0")
		opts := TableOpts{Prefix: "p", Columns: "k primary key, a", EPN: p.EPN, Cache: p.Cache}
		t := w.TableName("c0")
		var fatal error
		open := func() {
			_, fatal = c.Exec(c.CreateSQL(t, opts))
		}
		w.Solo(c, open)
		if fatal != nil {
			x.Fail("C16-open", "writer cannot open: %v", fatal)
			return
		}
		acked := 0
		// verify is run on the writer's goroutine right after an acknowledged statement
		verify := func(label string) bool {
			vers, err := c.Versions(t)
			if cur, _ := lay.Versions(w.S.Bucket); err == nil && len(vers) == 0 && len(cur) == 0 {
				return true // nothing was ever committed (statements that matched no row)
			}
			if err != nil || len(vers) != 1 {
				x.Fail("C16-read", "%s: s3db_version after acknowledged commit = %v, %v", label, vers, err)
				return false
			}
			x.Check()
			wt, err := lay.WalkVersion(w.S.Bucket, vers[0])
			if err != nil {
				x.Fail("C16-incomplete", "%s: acknowledged version %s: %v", label, vers[0], err)
				return false
			}
			if os.Getenv("VERIF_TRACE") != "" {
				fmt.Fprintf(os.Stderr, "   tree after %s: %s\n", label, lay.DumpVersion(w.S.Bucket, vers[0]))
			}
			if !wt.OK() {
				x.Fail("C16-incomplete", "%s: acknowledged version %s is not readable from the bucket alone: %s; tree %s", label, vers[0], wt.Err(), lay.DumpVersion(w.S.Bucket, vers[0]))
				return false
			}
			f := w.NewPassiveClient("fresh")
			f.Open()
			defer f.CloseDB()
			ft := w.TableName("fresh")
			o := opts
			o.ReadOnly = true
			o.Cache = 0
			if _, err := f.Exec(f.CreateSQL(ft, o)); err != nil {
				x.Fail("C16-fresh-open", "%s: fresh read-only open after acknowledged commit %s fails: %v", label, vers[0], err)
				return false
			}
			defer f.Exec("drop table " + ft)
			asc, err := f.Query("select * from " + ft + " order by k")
			if err != nil {
				x.Fail("C16-fresh-scan", "%s: fresh scan after acknowledged commit %s fails: %v", label, vers[0], err)
				return false
			}
			if got, want := RowsString(asc), RowsString(wt.Rows([]string{"k", "a"}, 0)); got != want {
				x.Fail("C16-tree-differs", "%s: fresh scan %s != bucket walk %s", label, got, want)
				return false
			}
			x.ProbeN("tree-height>=1", b2i(wt.MaxDepth >= 1))
			return true
		}
		w.Go(c, func() {
			for i, op := range p.Ops {
				if x.Failed() {
					return
				}
				c.Step("advance:1000000000") // distinct write times: equal-time writes have no defined winner
				c.Step(fmt.Sprintf("op%d", i))
				faulted := i == p.FailOp
				have := map[int]bool{}
				if rows, err := c.Query("select k from " + t); err != nil {
					x.Fail("C16-read", "writer cannot read its own table: %v", err)
					return
				} else {
					for _, r := range rows {
						var k int
						fmt.Sscanf(r[0], "i:%d", &k)
						have[k] = true
					}
				}
				if faulted {
					fs := &FaultSpec{Client: "c0", Nth: p.FailNth, Kind: p.Kind, Persistent: p.Persist}
					if p.OnlyPut {
						fs.Op = OpPut
					}
					w.Faults = []*FaultSpec{fs}
				}
				var err error
				switch op.Kind {
				case "txn":
					var vals []string
					for j, k := range op.Keys {
						if !have[k] {
							have[k] = true
							vals = append(vals, fmt.Sprintf("(%d,%d)", k, op.Val*100+j))
						}
					}
					if len(vals) == 0 {
						w.Faults = nil
						continue
					}
					_, err = c.Exec("insert into " + t + "(k,a) values " + strings.Join(vals, ","))
				case "insert":
					if have[op.Keys[0]] {
						_, err = c.Exec(fmt.Sprintf("update %s set a=%d where k=%d", t, op.Val*100, op.Keys[0]))
					} else {
						_, err = c.Exec(fmt.Sprintf("insert into %s(k,a) values (%d,%d)", t, op.Keys[0], op.Val*100))
					}
				case "update":
					_, err = c.Exec(fmt.Sprintf("update %s set a=%d where k>=%d and k<%d", t, op.Val*100, op.Keys[0], op.Keys[0]+6))
				case "delete":
					_, err = c.Exec(fmt.Sprintf("delete from %s where k>=%d and k<%d", t, op.Keys[0], op.Keys[0]+4))
				default:
					err = fmt.Errorf("unknown op")
				}
				fired := 0
				if faulted {
					fired = w.Faults[0].Fired
					w.Faults = nil
					if fired > 0 {
						x.Probe("fault-fired-in-statement")
					}
				}
				if err == nil {
					if fired > 0 {
						x.Probe("acknowledged-despite-fault")
					}
					acked++
					if !verify(fmt.Sprintf("op %d (%s)", i, op.Kind)) {
						return
					}
					continue
				}
				if !faulted || fired == 0 {
					x.Fail("C16-unexpected-error", "op %d (%s) fails without an injected fault: %v", i, op.Kind, err)
					return
				}
				x.Probe("statement-failed-cleanly")
				// the statement was refused: start over from the bucket with a new
				// connection, as a process that saw its commit fail would
				c.Exec("drop table " + t)
				c.CloseDB()
				c.Open()
				open()
				if fatal != nil {
					x.Fail("C16-open", "writer cannot re-open after a failed commit: %v", fatal)
					return
				}
				if !verify(fmt.Sprintf("re-open after failed op %d", i)) {
					return
				}
			}
		})
		w.Run()
		w.CheckPanics()
		if w.Viol != nil || x.Failed() {
			return
		}
		x.Sig(len(w.S.Log), LogHash(w.S.Log))
		if acked >= 2 {
			x.Nontrivial()
		}
	})
}
