package sim

// The worker: driven by the runner (cmd/verif) through environment variables.
// It is a test binary only because testing/synctest needs a *testing.T.

import (
	"bufio"
	"encoding/json"
	"fmt"
	"os"
	"strings"
	"testing"
	"time"

	_ "github.com/jrhy/s3db/sqlite"
	_ "github.com/jrhy/s3db/sqlite/sqlite-autoload-extension"
	_ "github.com/mattn/go-sqlite3"
)

func RunSeed(prop string, base int64, idx int64) uint64 {
	return uint64(base)*1000003 + uint64(idx)
}

func TestWorker(t *testing.T) {
	mode := os.Getenv("VERIF_MODE")
	if mode == "" {
		t.Skip("worker not driven")
	}
	out := os.Stdout
	if p := os.Getenv("VERIF_OUT"); p != "" {
		f, err := os.OpenFile(p, os.O_CREATE|os.O_WRONLY|os.O_APPEND, 0o644)
		if err != nil {
			t.Fatal(err)
		}
		defer f.Close()
		out = f
	}
	bw := bufio.NewWriter(out)
	emit := func(v interface{}) {
		b, _ := json.Marshal(v)
		bw.Write(b)
		bw.WriteByte('\n')
		bw.Flush()
	}
	switch mode {
	case "gen":
		prop := os.Getenv("VERIF_PROP")
		tier := os.Getenv("VERIF_TIER")
		base := envInt("VERIF_SEED", 1)
		first := envInt("VERIF_FIRST", 0)
		stride := envInt("VERIF_STRIDE", 1)
		count := envInt("VERIF_COUNT", 1)
		deadline := envInt("VERIF_DEADLINE", 0)
		fam := os.Getenv("VERIF_FAMILY")
		samples := 0
		for i := first; i < count; i += stride {
			if deadline > 0 && time.Now().Unix() > deadline {
				break
			}
			seed := RunSeed(prop, base, i)
			p := Generate(prop, seed, tier, fam)
			if p == nil {
				t.Fatalf("no family for %s", prop)
			}
			fmt.Fprintf(os.Stderr, "START %d\n", seed)
			res := Execute(t, p)
			fmt.Fprintf(os.Stderr, "END %d\n", seed)
			if res.Violation == nil && samples < 1 && res.Nontrivial {
				res.Program = p
				samples++
			}
			emit(res)
			if FinalizerStuck || res.Violation != nil && (strings.HasPrefix(res.Violation.Class, "panic") || res.Violation.Class == "harness-leak") {
				// the process may hold a wedged SQLite connection; let the runner start a fresh one
				emit(map[string]interface{}{"restart_from": i + stride})
				return
			}
		}
		emit(map[string]interface{}{"done": true})
	case "replay":
		p, err := LoadProgram(os.Getenv("VERIF_PROGRAM"))
		if err != nil {
			t.Fatal(err)
		}
		fmt.Fprintf(os.Stderr, "START %d\n", p.Seed)
		res := Execute(t, p)
		fmt.Fprintf(os.Stderr, "END %d\n", p.Seed)
		emit(res)
		emit(map[string]interface{}{"done": true})
	case "emit":
		p := Generate(os.Getenv("VERIF_PROP"), RunSeed("", envInt("VERIF_SEED", 1), envInt("VERIF_FIRST", 0)), os.Getenv("VERIF_TIER"), os.Getenv("VERIF_FAMILY"))
		if p == nil {
			t.Fatal("no family")
		}
		if err := SaveProgram(os.Getenv("VERIF_PROGRAM"), p); err != nil {
			t.Fatal(err)
		}
		emit(map[string]interface{}{"done": true})
	case "shrink":
		p, err := LoadProgram(os.Getenv("VERIF_PROGRAM"))
		if err != nil {
			t.Fatal(err)
		}
		budget := time.Duration(envInt("VERIF_SHRINK_S", 60)) * time.Second
		q, n := Shrink(t, p, budget)
		if err := SaveProgram(os.Getenv("VERIF_SHRUNK"), q); err != nil {
			t.Fatal(err)
		}
		emit(map[string]interface{}{"done": true, "executions": n})
	}
}
