module verif/sim

go 1.25.0

require (
	github.com/aws/aws-sdk-go v1.55.8
	github.com/johannesboyne/gofakes3 v1.2.0
	github.com/jrhy/mast v1.2.33
	github.com/jrhy/s3db v0.0.0
	github.com/mattn/go-sqlite3 v1.14.49
	google.golang.org/protobuf v1.36.12
)

require (
	github.com/hashicorp/golang-lru v1.0.2 // indirect
	github.com/jmespath/go-jmespath v0.4.0 // indirect
	github.com/johncgriffin/overflow v0.0.0-20211019200055-46fa312c352c // indirect
	github.com/mattn/go-pointer v0.0.1 // indirect
	github.com/minio/blake2b-simd v0.0.0-20160723061019-3f5f724cb5b1 // indirect
	github.com/ryszard/goskiplist v0.0.0-20150312221310-2dfbae5fcf46 // indirect
	github.com/segmentio/ksuid v1.0.4 // indirect
	go.riyazali.net/sqlite v0.0.0-20250204091031-8aa392720bb1 // indirect
	golang.org/x/crypto v0.55.0 // indirect
	golang.org/x/sys v0.47.0 // indirect
)

replace github.com/jrhy/s3db => /repo
