package sim

// C17: the key-value layer keeps its documented last-write and tombstone
// rules. kv.Open takes the store interface directly (existing seam); several
// handles on one prefix are driven through Set / Tombstone / RemoveTombstones
// / Commit / Clone / re-Open with distinct, also decreasing, times and checked
// after every operation against a map-based reference.

import (
	"bytes"
	"context"
	"encoding/gob"
	"fmt"
	"math/rand/v2"
	"reflect"
	"sort"
	"strings"
	"time"

	"github.com/jrhy/s3db/kv"
	crdtpub "github.com/jrhy/s3db/kv/crdt"
)

type KVOp struct {
	H     int    `json:"h"`
	Op    string `json:"op"` // set tomb rmtomb commit reopen clone diff trace
	Key   int    `json:"key,omitempty"`
	T     int64  `json:"t,omitempty"` // seconds after T0 (distinct per op)
	Other int    `json:"other,omitempty"`
}

type KVParams struct {
	Mode   string `json:"mode"` // lww conflict custom
	Gob    bool   `json:"gob"`  // root format 0 (gob), by pre-seeding a gob-encoded empty root
	StrKey bool   `json:"strkey"`
	BF     int    `json:"bf"`
	NH     int    `json:"nh"`
	Perm   bool   `json:"perm"`
	Ops    []KVOp `json:"ops"`
	// all times of the run lie before 1970
	Pre1970 bool `json:"pre1970,omitempty"`
}

func init() {
	Register(&Family{Property: "C17", Name: "kv-model", Gen: func(r *rand.Rand, tier string) interface{} {
		p := &KVParams{Mode: []string{"lww", "lww", "conflict", "custom"}[r.IntN(4)], Gob: r.IntN(3) == 0, StrKey: r.IntN(2) == 0,
			BF: []int{2, 3, 4, 16, 0}[r.IntN(5)], NH: 2 + r.IntN(3), Perm: r.IntN(2) == 0}
		n := 8 + r.IntN(30)
		times := r.Perm(n + 1)
		nk := 2 + r.IntN(5)
		for i := 0; i < n; i++ {
			op := KVOp{H: r.IntN(p.NH), Key: r.IntN(nk), T: int64(times[i] + 1), Other: r.IntN(p.NH)}
			switch k := r.IntN(20); {
			case k < 7:
				op.Op = "set"
			case k < 10:
				op.Op = "tomb"
			case k < 11:
				op.Op = "rmtomb"
			case k < 14:
				op.Op = "commit"
			case k < 17:
				op.Op = "reopen"
			case k < 18:
				op.Op = []string{"clone", "clone", "commit-fault"}[r.IntN(3)]
			case k < 19:
				op.Op = "diff"
			default:
				op.Op = "trace"
			}
			p.Ops = append(p.Ops, op)
		}
		p.Pre1970 = r.IntN(8) == 0
		return p
	}, Run: runC17})
}

type kvEntry struct {
	Mod, Tomb int64
	Val       string
}

type kvState map[string]kvEntry

func (s kvState) clone() kvState {
	o := kvState{}
	for k, v := range s {
		o[k] = v
	}
	return o
}

// join of two entries per the documented rules (distinct times assumed).
func kvJoin(mode string, a, b kvEntry) kvEntry {
	if mode == "custom" && a.Tomb == 0 && b.Tomb == 0 {
		// the harness's custom merge: later time wins, value = lexicographic max of the two
		w := a
		if b.Mod > a.Mod {
			w = b
		}
		if b.Val > a.Val {
			w.Val = b.Val
		} else {
			w.Val = a.Val
		}
		return w
	}
	switch {
	case a.Tomb != 0 && b.Tomb != 0:
		if a.Tomb <= b.Tomb {
			return a
		}
		return b
	case a.Tomb != 0:
		return a
	case b.Tomb != 0:
		return b
	case a.Mod >= b.Mod:
		return a
	}
	return b
}

func runC17(x *Exec) {
	var p KVParams
	if !x.Params(&p) || p.NH < 1 || p.NH > 5 || p.BF == 1 || p.BF < 0 || len(p.Ops) > 80 {
		x.Invalid()
		return
	}
	seenT := map[int64]bool{}
	for _, op := range p.Ops {
		if op.H < 0 || op.H >= p.NH || op.Other < 0 || op.Other >= p.NH || op.T <= 0 || op.T > 100000 || seenT[op.T] || op.Key < 0 || op.Key > 50 {
			x.Invalid()
			return
		}
		seenT[op.T] = true
	}
	if p.Mode != "lww" && p.Mode != "conflict" && p.Mode != "custom" {
		x.Invalid()
		return
	}
	x.Bubble(func(w *World) {
		w.PermuteMerge = p.Perm
		c := w.NewClient("kv")
		lay := KVLayout("kvp")
		ctx := context.Background()
		var conflicts []string
		cfg := func() kv.Config {
			cf := kv.Config{Storage: &kv.S3BucketInfo{EndpointURL: "sim://kv", BucketName: "simbucket", Prefix: "kvp"}, ValuesLike: "", BranchFactor: uint(p.BF)}
			if p.StrKey {
				cf.KeysLike = ""
			} else {
				cf.KeysLike = 0
			}
			switch p.Mode {
			case "conflict":
				cf.OnConflictMerged = func(key, v1, v2 interface{}) error {
					conflicts = append(conflicts, fmt.Sprintf("%v:%v|%v", key, v1, v2))
					return nil
				}
			case "custom":
				cf.CustomMerge = func(key interface{}, v1, v2 crdtpub.Value) crdtpub.Value {
					if v1.Tombstoned() || v2.Tombstoned() {
						return *crdtpub.LastWriteWins(&v1, &v2)
					}
					wv := v1
					if v2.ModEpochNanos > v1.ModEpochNanos {
						wv = v2
					}
					s1, _ := v1.Value.(string)
					s2, _ := v2.Value.(string)
					if s2 > s1 {
						wv.Value = s2
					} else {
						wv.Value = s1
					}
					return wv
				}
			}
			return cf
		}
		key := func(k int) interface{} {
			if p.StrKey {
				return fmt.Sprintf("key%02d", k)
			}
			return k
		}
		keyStr := func(k interface{}) string { return fmt.Sprint(k) }
		tm := func(t int64) time.Time {
			if p.Pre1970 {
				// times before 1970 are negative numbers of nanoseconds: still distinct, still ordered
				return time.Unix(-100000, 0).Add(time.Duration(t) * time.Second)
			}
			return T0.Add(time.Duration(t) * time.Second)
		}

		type handle struct {
			db    *kv.DB
			state kvState
			dirty bool
			group int // handles related by Clone since their last Open share a group (and, inside mast, tree nodes)
		}
		groups := 0
		type groupWrite struct {
			h   *handle
			key string
			e   kvEntry
		}
		written := map[int][]groupWrite{}             // by group: every entry a member wrote while it belonged to the group
		versions := map[string]kvState{}              // committed version name -> state
		committedVals := map[string]map[string]bool{} // key -> set of "time|value" that were the entry of some committed version
		tombTimes := map[string]map[int64]bool{}
		hs := make([]*handle, p.NH)
		store := w.S.NewHandle("kv", "kv", false, nil)
		currentJoin := func() kvState {
			cur, _ := lay.Versions(w.S.Bucket)
			// A listed version that another listed version names as a merge source is that version's ancestor and
			// is contained in it (what the descendant purged stays purged). Version names are derived from the
			// content, so a handle that commits content identical to such an ancestor re-publishes the ancestor:
			// the bucket cannot tell the two histories apart, and neither does this model.
			contained := map[string]bool{}
			for _, name := range cur {
				if r, err := DecodeRoot(name, w.S.Bucket[lay.Current+name]); err == nil {
					for _, par := range r.Parents {
						if par != name {
							contained[par] = true
						}
					}
				}
			}
			st := kvState{}
			for _, name := range cur {
				vs, ok := versions[name]
				if !ok || contained[name] {
					continue
				}
				for k, e := range vs {
					if old, ok := st[k]; ok {
						st[k] = kvJoin(p.Mode, old, e)
					} else {
						st[k] = e
					}
				}
			}
			return st
		}
		recordVersion := func(name string, st kvState) {
			versions[name] = st.clone()
			for k, e := range st {
				if e.Tomb == 0 {
					if committedVals[k] == nil {
						committedVals[k] = map[string]bool{}
					}
					committedVals[k][fmt.Sprintf("%d|%s", e.Mod, e.Val)] = true
				}
			}
		}
		open := func(h *handle, when time.Time) error {
			want := currentJoin()
			db, err := kv.Open(ctx, store, cfg(), kv.OpenOptions{}, when)
			if err != nil {
				return err
			}
			h.db, h.state, h.dirty = db, want, false
			groups++
			h.group = groups
			// a read-write open of several versions commits their merge
			if roots, err := db.Roots(); err == nil && len(roots) == 1 {
				if _, known := versions[roots[0]]; !known {
					recordVersion(roots[0], want)
				}
			}
			return nil
		}
		check := func(h *handle, when string) bool {
			x.Check()
			// full cursor scan with metadata
			cur, err := h.db.Cursor(ctx)
			if err != nil {
				x.Fail("C17-read-failed", "%s: cursor: %v", when, err)
				return false
			}
			if err := cur.Min(ctx); err != nil {
				x.Fail("C17-read-failed", "%s: min: %v", when, err)
				return false
			}
			got := kvState{}
			var order []string
			for {
				k, v, ok := cur.Get()
				if !ok {
					break
				}
				val, _ := v.Value.(string)
				got[keyStr(k)] = kvEntry{Mod: v.ModEpochNanos, Tomb: v.TombstoneSinceEpochNanos, Val: val}
				order = append(order, keyStr(k))
				if err := cur.Forward(ctx); err != nil {
					x.Fail("C17-read-failed", "%s: forward: %v", when, err)
					return false
				}
			}
			if !reflect.DeepEqual(map[string]kvEntry(got), map[string]kvEntry(h.state)) {
				// open finding KF-14d: the only difference is entries that a Clone relative of this handle
				// holds (mast's Insert writes a new child into a node object both trees share)
				leak := 0
				for k := range unionKeys(got, h.state) {
					if got[k] == h.state[k] {
						continue
					}
					fromRelative := false
					for _, wr := range written[h.group] {
						if wr.h != h && wr.key == k && wr.e == got[k] {
							fromRelative = true // (the relative may have re-opened since)
						}
					}
					if _, mine := h.state[k]; mine || !fromRelative {
						leak = -1 << 30
					}
					leak++
				}
				if leak > 0 {
					x.Fail("C17-clone-leak", "%s: entries written on a Clone relative appear in this handle: tree holds %s, the documented rules give %s", when, fmtState(got), fmtState(h.state))
					return false
				}
				x.Fail("C17-state-differs", "%s: tree holds %s, the documented rules give %s", when, fmtState(got), fmtState(h.state))
				return false
			}
			if uint64(len(h.state)) != h.db.Size() {
				x.Fail("C17-size", "%s: Size()=%d, entries+tombstones=%d", when, h.db.Size(), len(h.state))
				return false
			}
			for _, ks := range sortedStateKeys(h.state) {
				e := h.state[ks]
				var k interface{} = ks
				if !p.StrKey {
					var n int
					fmt.Sscanf(ks, "%d", &n)
					k = n
				}
				var v string
				ok, err := h.db.Get(ctx, k, &v)
				tomb, terr := h.db.IsTombstoned(ctx, k)
				if err != nil || terr != nil {
					x.Fail("C17-read-failed", "%s: get %v: %v %v", when, k, err, terr)
					return false
				}
				if ok != (e.Tomb == 0) || (ok && v != e.Val) || tomb != (e.Tomb != 0) {
					x.Fail("C17-get", "%s: Get(%v)=(%v,%q) IsTombstoned=%v, expected entry %+v", when, k, ok, v, tomb, e)
					return false
				}
			}
			return true
		}
		w.Solo(c, func() {
			defer func() {
				// never drop a dirty handle: its finalizer would panic the process
				for _, h := range hs {
					if h != nil && h.db != nil {
						h.db.Cancel()
					}
				}
			}()
			if p.Gob {
				// a bucket created by the old (gob) root format: one empty gob-encoded version
				cr := T0
				g := gobRoot{Root: gobMastRoot{BranchFactor: uint(max(p.BF, 0))}, Created: &cr, KVVersion: 0}
				if p.BF == 0 {
					g.Root.BranchFactor = kv.DefaultBranchFactor
				}
				switch p.Mode {
				case "custom":
					g.MergeMode = 1
				case "conflict":
					g.MergeMode = 2
				}
				var buf bytes.Buffer
				if err := gob.NewEncoder(&buf).Encode(g); err != nil {
					x.Fail("C17-harness", "gob seed: %v", err)
					return
				}
				w.S.Bucket[lay.Current+"000000_seedgob"] = buf.Bytes()
				versions["000000_seedgob"] = kvState{}
			}
			for i := range hs {
				hs[i] = &handle{}
				if err := open(hs[i], T0); err != nil {
					x.Fail("C17-open", "open handle %d: %v", i, err)
					return
				}
			}
			for oi, op := range p.Ops {
				if x.Failed() {
					return
				}
				h := hs[op.H]
				desc := fmt.Sprintf("op %d %s h=%d key=%d t=%d", oi, op.Op, op.H, op.Key, op.T)
				ks := keyStr(key(op.Key))
				when := tm(op.T)
				switch op.Op {
				case "set":
					val := fmt.Sprintf("v%d", oi)
					if err := h.db.Set(ctx, when, key(op.Key), val); err != nil {
						x.Fail("C17-op-failed", "%s: %v", desc, err)
						return
					}
					ne := kvEntry{Mod: when.UnixNano(), Val: val}
					if old, ok := h.state[ks]; ok {
						// local update: LastWriteWins(new, existing)
						if old.Tomb != 0 {
							ne = old
						} else if ne.Mod < old.Mod {
							ne = old
						}
					}
					h.state[ks] = ne
					h.dirty = true
					written[h.group] = append(written[h.group], groupWrite{h, ks, ne})
				case "tomb":
					if err := h.db.Tombstone(ctx, when, key(op.Key)); err != nil {
						x.Fail("C17-op-failed", "%s: %v", desc, err)
						return
					}
					if tombTimes[ks] == nil {
						tombTimes[ks] = map[int64]bool{}
					}
					tombTimes[ks][when.UnixNano()] = true
					ne := kvEntry{Mod: when.UnixNano(), Tomb: when.UnixNano()}
					if old, ok := h.state[ks]; ok && old.Tomb != 0 && old.Tomb <= ne.Tomb {
						ne = old
					}
					h.state[ks] = ne
					h.dirty = true
					written[h.group] = append(written[h.group], groupWrite{h, ks, ne})
				case "rmtomb":
					if err := h.db.RemoveTombstones(ctx, when); err != nil {
						x.Fail("C17-op-failed", "%s: %v", desc, err)
						return
					}
					for k, e := range h.state {
						if e.Tomb != 0 && e.Tomb < when.UnixNano() {
							delete(h.state, k)
							x.Probe("tombstone-purged")
						}
					}
				case "commit":
					name, err := h.db.Commit(ctx)
					if err != nil {
						x.Fail("C17-op-failed", "%s: %v", desc, err)
						return
					}
					if name != nil {
						recordVersion(*name, h.state)
					}
					h.dirty = false
				case "commit-fault":
					// a Commit that meets a storage error, then the caller simply tries again: an acknowledged
					// Commit is stored, whatever happened before it
					if !h.dirty {
						continue
					}
					w.Faults = []*FaultSpec{{Client: "kv", Op: OpPut, Nth: 1 + op.Key%3, Kind: FaultErr}}
					_, err1 := h.db.Commit(ctx)
					fired := w.Faults[0].Fired > 0
					w.Faults = nil
					if err1 == nil && fired {
						// the fault hit the retire step, whose errors are swallowed: committed
						if roots, err := h.db.Roots(); err == nil && len(roots) == 1 {
							recordVersion(roots[0], h.state)
						}
						h.dirty = false
						continue
					}
					if err1 == nil {
						if roots, err := h.db.Roots(); err == nil && len(roots) == 1 {
							recordVersion(roots[0], h.state)
						}
						h.dirty = false
						continue
					}
					x.Probe("commit-failed-on-storage-error")
					name2, err2 := h.db.Commit(ctx)
					if err2 == nil {
						x.Check()
						stored := false
						if name2 != nil {
							_, stored = w.S.Bucket[lay.Current+*name2]
						}
						if !stored {
							x.Fail("C17-commit-retry-acknowledged-nothing", "%s: Commit failed (%v), the second Commit reported success but the version it names (%v) is not stored", desc, err1, name2)
							return
						}
						if wt, werr := lay.WalkVersion(w.S.Bucket, *name2); werr != nil || !wt.OK() {
							x.Fail("C17-commit-retry-acknowledged-nothing", "%s: Commit failed (%v), the second Commit reported success and published a version that is not readable: %v %s", desc, err1, werr, wt.Err())
							return
						}
						recordVersion(*name2, h.state)
						h.dirty = false
						continue
					}
					// refused: the handle is given up, as its error says
					h.db.Cancel()
					conflicts = nil
					if err := open(h, when); err != nil {
						x.Fail("C17-op-failed", "%s: open after failed commit: %v", desc, err)
						return
					}
					x.Probe("handle-reopened-after-failed-commit")
				case "reopen":
					if _, err := h.db.Commit(ctx); err != nil {
						x.Fail("C17-op-failed", "%s: commit: %v", desc, err)
						return
					}
					if roots, err := h.db.Roots(); err == nil && len(roots) == 1 {
						recordVersion(roots[0], h.state)
					}
					conflicts = nil
					before := currentJoin()
					if err := open(h, when); err != nil {
						x.Fail("C17-op-failed", "%s: open: %v", desc, err)
						return
					}
					_ = before
					x.Probe("reopened")
				case "clone":
					o := hs[op.Other]
					if op.Other == op.H {
						continue
					}
					o.db.Cancel()
					cl, err := h.db.Clone(ctx)
					if err != nil {
						x.Fail("C17-op-failed", "%s: %v", desc, err)
						return
					}
					o.db, o.state, o.dirty, o.group = cl, h.state.clone(), h.dirty, h.group
				case "diff":
					o := hs[op.Other]
					got := map[string]string{}
					err := h.db.Diff(ctx, o.db, func(k, mine, from interface{}) (bool, error) {
						got[keyStr(k)] = fmt.Sprintf("%v<-%v", mine, from)
						return true, nil
					})
					if err != nil {
						if strings.Contains(err.Error(), "keyCompare") && (len(h.state) == 0 || len(o.state) == 0) {
							// known finding KF-24: mast's diff compares a nil key when a tree was emptied by purging
							x.Fail("C17-diff-empty-tree", "%s: Diff fails when a tree has been emptied by RemoveTombstones: %v", desc, err)
							return
						}
						x.Fail("C17-op-failed", "%s: %v", desc, err)
						return
					}
					want := map[string]string{}
					vis := func(s kvState, k string) interface{} {
						if e, ok := s[k]; ok && e.Tomb == 0 {
							return e.Val
						}
						return nil
					}
					for k := range unionKeys(h.state, o.state) {
						a, b := vis(h.state, k), vis(o.state, k)
						if !reflect.DeepEqual(a, b) {
							want[k] = fmt.Sprintf("%v<-%v", a, b)
						}
					}
					x.Check()
					if !reflect.DeepEqual(got, want) {
						x.Fail("C17-diff", "%s: Diff reports %v, keys whose visible value differs are %v", desc, got, want)
						return
					}
					x.Probe("diffed")
				case "trace":
					if h.dirty {
						continue
					}
					var got []string
					last := int64(1<<62 - 1)
					first := true
					err := h.db.TraceHistory(ctx, key(op.Key), time.Time{}, func(wh time.Time, value interface{}) (bool, error) {
						got = append(got, fmt.Sprintf("%d|%v", wh.UnixNano(), value))
						return true, nil
					})
					if err != nil {
						x.Fail("C17-op-failed", "%s: %v", desc, err)
						return
					}
					x.Check()
					cur, present := h.state[ks]
					for _, g := range got {
						var tn int64
						var v string
						fmt.Sscanf(g, "%d|%s", &tn, &v)
						if first && present && cur.Tomb == 0 && g != fmt.Sprintf("%d|%s", cur.Mod, cur.Val) {
							x.Fail("C17-trace", "%s: TraceHistory starts with %s, the current value is %d|%s", desc, g, cur.Mod, cur.Val)
							return
						}
						first = false
						if tn >= last {
							x.Fail("C17-trace", "%s: TraceHistory times not strictly decreasing: %v", desc, got)
							return
						}
						last = tn
						if v == "<nil>" && tombTimes[ks][tn] {
							continue // the tombstone itself, reported with a nil value
						}
						if !committedVals[ks][g] && !(present && g == fmt.Sprintf("%d|%s", cur.Mod, cur.Val)) {
							x.Fail("C17-trace", "%s: TraceHistory yields %s, which was never a committed value of the key (%v)", desc, g, sortedSet(committedVals[ks]))
							return
						}
					}
					x.ProbeN("trace-with-2+-values", b2i(len(got) >= 2))
				}
				if !check(h, "after "+desc) {
					return
				}
			}
			// final: every handle re-opened sees the join of everything committed
			for i, h := range hs {
				if _, err := h.db.Commit(ctx); err != nil {
					x.Fail("C17-op-failed", "final commit %d: %v", i, err)
					return
				}
				if roots, err := h.db.Roots(); err == nil && len(roots) == 1 {
					recordVersion(roots[0], h.state)
				}
			}
			for i, h := range hs {
				if err := open(h, tm(200000)); err != nil {
					x.Fail("C17-open", "final open %d: %v", i, err)
					return
				}
				if !check(h, fmt.Sprintf("after final re-open of handle %d", i)) {
					return
				}
			}
			for _, h := range hs {
				h.db.Cancel()
			}
		})
		w.CheckPanics()
		x.Sig(LogHash(w.S.Log))
		if len(versions) >= 3 {
			x.Nontrivial()
		}
		x.ProbeN("gob-root-format", b2i(p.Gob))
		x.ProbeN("mode-"+p.Mode, 1)
		x.ProbeN("conflict-callbacks", len(conflicts))
	})
}

func unionKeys(a, b kvState) map[string]bool {
	u := map[string]bool{}
	for k := range a {
		u[k] = true
	}
	for k := range b {
		u[k] = true
	}
	return u
}

func fmtState(s kvState) string {
	var ks []string
	for k := range s {
		ks = append(ks, k)
	}
	sort.Strings(ks)
	var parts []string
	for _, k := range ks {
		e := s[k]
		if e.Tomb != 0 {
			parts = append(parts, fmt.Sprintf("%s:TOMB@%d", k, (e.Tomb-T0.UnixNano())/1e9))
		} else {
			parts = append(parts, fmt.Sprintf("%s:%s@%d", k, e.Val, (e.Mod-T0.UnixNano())/1e9))
		}
	}
	return "{" + strings.Join(parts, " ") + "}"
}

func sortedSet(m map[string]bool) []string {
	var s []string
	for k := range m {
		s = append(s, k)
	}
	sort.Strings(s)
	return s
}

func sortedStateKeys(s kvState) []string {
	var ks []string
	for k := range s {
		ks = append(ks, k)
	}
	sort.Strings(ks)
	return ks
}
