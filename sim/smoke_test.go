package sim

import (
	"fmt"
	"testing"
	"testing/synctest"

	_ "github.com/jrhy/s3db/sqlite"
	_ "github.com/jrhy/s3db/sqlite/sqlite-autoload-extension"
	_ "github.com/mattn/go-sqlite3"
)

func TestSmoke(t *testing.T) {
	for i := 0; i < 3; i++ {
		synctest.Test(t, func(t *testing.T) {
			w := NewWorld()
			w.Policy = "random"
			c0 := w.NewClient("c0")
			c1 := w.NewClient("c1")
			t0, t1 := w.TableName("t"), w.TableName("t")
			w.Solo(c0, func() {
				_, err := c0.Exec(c0.CreateSQL(t0, TableOpts{Prefix: "p", Columns: "a primary key, b", EPN: 2}))
				if err != nil {
					t.Fatal(err)
				}
			})
			w.Solo(c1, func() {
				_, err := c1.Exec(c1.CreateSQL(t1, TableOpts{Prefix: "p", Columns: "a primary key, b", EPN: 2}))
				if err != nil {
					t.Fatal(err)
				}
			})
			w.Go(c0, func() {
				for k := 0; k < 5; k++ {
					if _, err := c0.Exec(fmt.Sprintf("insert into %s values (?, ?)", t0), k, "x"); err != nil {
						t.Error(err)
					}
				}
			})
			w.Go(c1, func() {
				for k := 10; k < 15; k++ {
					if _, err := c1.Exec(fmt.Sprintf("insert into %s values (?, ?)", t1), k, "y"); err != nil {
						t.Error(err)
					}
				}
			})
			w.Run()
			w.Solo(c0, func() {
				if _, err := c0.Query("select s3db_refresh(?)", t0); err != nil {
					t.Error(err)
				}
				rows, err := c0.Query("select * from " + t0)
				t.Log(RowsString(rows), err)
			})
			w.Close()
			t.Log(len(w.S.Log), LogHash(w.S.Log), w.Viol, w.Stats)
		})
	}
}
