package sim

// O-walk: an independent reader of what s3db stores. It decodes version
// objects (JSON or gob) and node objects (protobuf message jrhy.s3db.v1.Node,
// through the generated message type only - not through s3db's codec, its
// Key type, or mast) straight from a bucket map.

import (
	"bytes"
	"encoding/gob"
	"encoding/json"
	"fmt"
	"math/big"
	"sort"
	"strings"
	"time"

	v1proto "github.com/jrhy/s3db/proto/v1"
	"google.golang.org/protobuf/proto"
)

type RootInfo struct {
	Name         string     `json:"-"`
	Link         *string    `json:"Link"`
	Size         uint64     `json:"Size"`
	Height       uint8      `json:"Height"`
	BranchFactor uint       `json:"BranchFactor"`
	NodeFormat   string     `json:"NodeFormat,omitempty"`
	Created      *time.Time `json:"cr,omitempty"`
	Parents      []string   `json:"p,omitempty"`
	MergeMode    int        `json:"mm,omitempty"`
	KVVersion    int        `json:"kv_version,omitempty"`
}

// gobRoot mirrors the field layout of the gob-encoded root (kv format 0).
type gobMastRoot struct {
	Link         *string
	Size         uint64
	Height       uint8
	BranchFactor uint
	NodeFormat   string
}
type gobRoot struct {
	Root         gobMastRoot
	Created      *time.Time
	MergeSources []string
	MergeMode    int
	KVVersion    int
}

func DecodeRoot(name string, b []byte) (*RootInfo, error) {
	var r RootInfo
	if err := json.Unmarshal(b, &r); err == nil {
		r.Name = name
		return &r, nil
	}
	var g gobRoot
	if err := gob.NewDecoder(bytes.NewReader(b)).Decode(&g); err != nil {
		return nil, fmt.Errorf("version object %s is neither JSON nor gob: %v", name, err)
	}
	return &RootInfo{Name: name, Link: g.Root.Link, Size: g.Root.Size, Height: g.Root.Height, BranchFactor: g.Root.BranchFactor,
		NodeFormat: g.Root.NodeFormat, Created: g.Created, Parents: g.MergeSources, MergeMode: g.MergeMode, KVVersion: g.KVVersion}, nil
}

// SV is an independent copy of a stored SQLite value.
type SV struct {
	T int // 0 null 1 int 2 real 3 text 4 blob
	I int64
	R float64
	S string
	B []byte
}

func svFrom(p *v1proto.SQLiteValue) SV {
	if p == nil {
		return SV{}
	}
	return SV{T: int(p.Type), I: p.Int, R: p.Real, S: p.Text, B: p.Blob}
}

func (v SV) Canon() string {
	switch v.T {
	case 1:
		return fmt.Sprintf("i:%d", v.I)
	case 2:
		return fmt.Sprintf("r:%x", mathFloat64bits(v.R))
	case 3:
		return fmt.Sprintf("t:%q", v.S)
	case 4:
		return fmt.Sprintf("b:%x", v.B)
	}
	return "null"
}

func rank(t int) int {
	switch t {
	case 0:
		return 0
	case 1, 2:
		return 1
	case 3:
		return 2
	}
	return 3
}

// CompareSV orders values exactly as SQLite does: NULL < numbers (INTEGER and
// REAL compared exactly, without rounding) < TEXT (bytewise) < BLOB (bytewise).
func CompareSV(a, b SV) int {
	if ra, rb := rank(a.T), rank(b.T); ra != rb {
		if ra < rb {
			return -1
		}
		return 1
	}
	switch rank(a.T) {
	case 0:
		return 0
	case 1:
		return numOf(a).Cmp(numOf(b))
	case 2:
		return strings.Compare(a.S, b.S)
	}
	return bytes.Compare(a.B, b.B)
}

func numOf(v SV) *big.Float {
	if v.T == 1 {
		return new(big.Float).SetPrec(128).SetInt64(v.I)
	}
	return new(big.Float).SetPrec(128).SetFloat64(v.R) // panics on NaN; SQLite never stores NaN
}

type WCol struct {
	V   SV
	Off time.Duration
}

type WEntry struct {
	Key     SV
	Mod     int64 // ns since Unix epoch
	Tomb    int64
	Prev    string
	HasRow  bool
	Deleted bool
	DelOff  time.Duration
	Cols    map[string]WCol
	Depth   int
}

func (e *WEntry) Live() bool { return e.Tomb == 0 && e.HasRow && !e.Deleted }

// StatusTime is when the row's insert/delete status was last decided.
func (e *WEntry) StatusTime() int64 { return e.Mod + int64(e.DelOff) }

type WTree struct {
	Root     *RootInfo
	Entries  []*WEntry      // in scan order
	Nodes    map[string]int // node name -> depth from root (0 = root)
	Missing  []string       // node names referenced but absent
	Problems []string       // structural problems
	MaxDepth int
}

// Walk reads the tree of one version from bucket. nodePrefix is e.g. "p/s3db-rows/node/".
func Walk(bucket map[string][]byte, nodePrefix string, root *RootInfo) *WTree {
	t := &WTree{Root: root, Nodes: map[string]int{}}
	if root.Link == nil || *root.Link == "" {
		if root.Size != 0 {
			t.Problems = append(t.Problems, fmt.Sprintf("version %s has no tree but Size=%d", root.Name, root.Size))
		}
		return t
	}
	var rec func(name string, depth int)
	rec = func(name string, depth int) {
		if depth > 64 {
			t.Problems = append(t.Problems, "tree deeper than 64 (cycle?)")
			return
		}
		t.Nodes[name] = depth
		if depth > t.MaxDepth {
			t.MaxDepth = depth
		}
		b, ok := bucket[nodePrefix+name]
		if !ok {
			t.Missing = append(t.Missing, name)
			return
		}
		var n v1proto.Node
		if err := proto.Unmarshal(b, &n); err != nil {
			t.Problems = append(t.Problems, fmt.Sprintf("node %s does not decode: %v", name, err))
			return
		}
		if len(n.Key) != len(n.Value) {
			t.Problems = append(t.Problems, fmt.Sprintf("node %s: %d keys, %d values", name, len(n.Key), len(n.Value)))
			return
		}
		if len(n.Link) != 0 && len(n.Link) != len(n.Key)+1 {
			t.Problems = append(t.Problems, fmt.Sprintf("node %s: %d keys, %d links", name, len(n.Key), len(n.Link)))
			return
		}
		if len(n.Key) == 0 && len(n.Link) == 0 && !(depth == 0 && root.Size == 0) {
			// (an emptied table keeps an empty root node: mast leaves one behind when the last entry is purged)
			t.Problems = append(t.Problems, fmt.Sprintf("node %s is empty", name))
		}
		for i := 0; i <= len(n.Key); i++ {
			if i < len(n.Link) && n.Link[i] != "" {
				rec(n.Link[i], depth+1)
			}
			if i < len(n.Key) {
				e := &WEntry{Key: svFrom(n.Key[i]), Depth: depth}
				v := n.Value[i]
				if v != nil {
					e.Mod, e.Tomb, e.Prev = v.ModEpochNanos, v.TombstoneSinceEpochNanos, v.PreviousRoot
					if v.Value != nil {
						e.HasRow = true
						e.Deleted = v.Value.Deleted
						e.DelOff = v.Value.DeleteUpdateOffset.AsDuration()
						e.Cols = map[string]WCol{}
						for name, cv := range v.Value.ColumnValues {
							e.Cols[name] = WCol{V: svFrom(cv.GetValue()), Off: cv.GetUpdateOffset().AsDuration()}
						}
					}
				}
				t.Entries = append(t.Entries, e)
			}
		}
	}
	rec(*root.Link, 0)
	for i := 1; i < len(t.Entries); i++ {
		if CompareSV(t.Entries[i-1].Key, t.Entries[i].Key) >= 0 {
			t.Problems = append(t.Problems, fmt.Sprintf("keys not strictly increasing in scan order: %s then %s",
				t.Entries[i-1].Key.Canon(), t.Entries[i].Key.Canon()))
		}
	}
	if len(t.Missing) == 0 && len(t.Problems) == 0 && uint64(len(t.Entries)) != root.Size {
		t.Problems = append(t.Problems, fmt.Sprintf("version %s records Size=%d but the tree holds %d entries", root.Name, root.Size, len(t.Entries)))
	}
	if len(t.Missing) == 0 && t.MaxDepth > int(root.Height) {
		t.Problems = append(t.Problems, fmt.Sprintf("version %s records Height=%d but the tree is %d deep", root.Name, root.Height, t.MaxDepth))
	}
	return t
}

func (t *WTree) OK() bool { return len(t.Missing) == 0 && len(t.Problems) == 0 }

func (t *WTree) Err() string {
	var s []string
	for _, m := range t.Missing {
		s = append(s, "missing node "+m)
	}
	s = append(s, t.Problems...)
	return strings.Join(s, "; ")
}

// Rows renders the live rows the way SELECT * renders them (cols in declared
// order, keyCol the index of the key column).
func (t *WTree) Rows(cols []string, keyCol int) [][]string {
	out := [][]string{}
	for _, e := range t.Entries {
		if !e.Live() {
			continue
		}
		row := make([]string, len(cols))
		for i, c := range cols {
			if i == keyCol {
				row[i] = e.Key.Canon()
			} else if cv, ok := e.Cols[c]; ok {
				row[i] = cv.V.Canon()
			} else {
				row[i] = "null"
			}
		}
		out = append(out, row)
	}
	return out
}

// Layout names the key prefixes of one table.
type Layout struct{ Node, Current, Merged string }

func TableLayout(s3prefix string) Layout {
	p := strings.Trim(s3prefix, "/")
	base := p + "/s3db-rows/"
	if p == "" {
		base = "s3db-rows/"
	}
	return Layout{Node: base + "node/", Current: base + "root/current/", Merged: base + "root/merged/"}
}

func KVLayout(prefix string) Layout {
	p := prefix
	if p != "" && !strings.HasSuffix(p, "/") {
		p += "/"
	}
	return Layout{Node: p + "node/", Current: p + "root/current/", Merged: p + "root/merged/"}
}

// Versions lists the version objects present under current/ and merged/.
func (l Layout) Versions(bucket map[string][]byte) (current, merged []string) {
	for k := range bucket {
		if strings.HasPrefix(k, l.Current) {
			current = append(current, strings.TrimPrefix(k, l.Current))
		} else if strings.HasPrefix(k, l.Merged) {
			merged = append(merged, strings.TrimPrefix(k, l.Merged))
		}
	}
	sort.Strings(current)
	sort.Strings(merged)
	return
}

// LoadVersion finds a version object by name in merged/ or current/.
func (l Layout) LoadVersion(bucket map[string][]byte, name string) (*RootInfo, error) {
	b, ok := bucket[l.Merged+name]
	if !ok {
		b, ok = bucket[l.Current+name]
	}
	if !ok {
		return nil, fmt.Errorf("version %s not in bucket", name)
	}
	return DecodeRoot(name, b)
}

// WalkVersion = LoadVersion + Walk.
func (l Layout) WalkVersion(bucket map[string][]byte, name string) (*WTree, error) {
	r, err := l.LoadVersion(bucket, name)
	if err != nil {
		return nil, err
	}
	return Walk(bucket, l.Node, r), nil
}

// DumpVersion renders the node structure of one version for violation reports:
// every node as name[:6]{child key child key ... child}.
func (l Layout) DumpVersion(bucket map[string][]byte, name string) string {
	r, err := l.LoadVersion(bucket, name)
	if err != nil || r.Link == nil || *r.Link == "" {
		return fmt.Sprintf("<%v>", err)
	}
	var rec func(name string, depth int) string
	rec = func(name string, depth int) string {
		b, ok := bucket[l.Node+name]
		if !ok {
			return "MISSING"
		}
		var n v1proto.Node
		if depth > 16 || proto.Unmarshal(b, &n) != nil {
			return "?"
		}
		var sb strings.Builder
		short := name
		if len(short) > 6 {
			short = short[:6]
		}
		sb.WriteString(short + "{")
		for i := 0; i <= len(n.Key); i++ {
			if i < len(n.Link) && n.Link[i] != "" {
				sb.WriteString(" " + rec(n.Link[i], depth+1))
			} else if len(n.Link) > 0 {
				sb.WriteString(" -")
			}
			if i < len(n.Key) {
				sb.WriteString(" " + svFrom(n.Key[i]).Canon())
			}
		}
		sb.WriteString(" }")
		return sb.String()
	}
	return rec(*r.Link, 0)
}

// UncountedLeak recognises the invisible form of open finding KF-14 in a
// walked version: the only problem is that the tree holds more entries than
// the version records, and the surplus is covered by entries whose keys were
// inserted by transactions that were rolled back on the writing connection.
func (t *WTree) UncountedLeak(leakable map[string]bool) []string {
	if t == nil || len(t.Missing) != 0 || len(t.Problems) != 1 || !strings.Contains(t.Problems[0], "records Size=") || len(leakable) == 0 {
		return nil
	}
	var leaked []string
	for _, e := range t.Entries {
		if leakable[e.Key.Canon()] {
			leaked = append(leaked, e.Key.Canon())
		}
	}
	if surplus := len(t.Entries) - int(t.Root.Size); surplus > 0 && surplus <= len(leaked) {
		return leaked
	}
	return nil
}
