package sim

// C14: storage faults surface as errors; never as wrong answers, hangs or
// crashes. One run = one generated bucket state plus one statement kind; the
// statement is executed once cleanly to learn its n storage requests and its
// result, and then again from the same state with request i = 1..n failing,
// for every i, each fault kind, transiently and persistently.

import (
	"fmt"
	"math/rand/v2"
	"strings"
	"time"
)

type C14Params struct {
	MW     MWParams `json:"mw"`
	Action string   `json:"action"`
	Arg    int      `json:"arg"`
}

var c14ReadActions = []string{"open-ro", "open-rw", "select", "select-range", "select-desc", "point", "refresh-ro", "refresh-rw", "changes", "count"}
var c14WriteActions = []string{"insert", "update", "delete", "txn", "vacuum"}

func init() {
	gen := func(actions []string) func(r *rand.Rand, tier string) interface{} {
		return func(r *rand.Rand, tier string) interface{} {
			mw := GenMW(r, MWGenOpts{MaxClients: 3, MaxStmts: 9, MaxKeys: 7, MaxCols: 2, Txns: true, Advance: true})
			mw.EPN = []int{2, 2, 3, 4}[r.IntN(4)]
			mw.Cache = 0
			mw.Inter = 0
			// strip refresh/reopen from the tail so that several unmerged versions remain
			for i := range mw.Scripts {
				for len(mw.Scripts[i]) > 0 {
					last := mw.Scripts[i][len(mw.Scripts[i])-1].Op
					if last == "refresh" || last == "reopen" {
						mw.Scripts[i] = mw.Scripts[i][:len(mw.Scripts[i])-1]
					} else {
						break
					}
				}
			}
			return &C14Params{MW: *mw, Action: actions[r.IntN(len(actions))], Arg: r.IntN(64)}
		}
	}
	Register(&Family{Property: "C14", Name: "read-faults", Gen: gen(c14ReadActions), Run: runC14})
	Register(&Family{Property: "C14", Name: "write-faults", Gen: gen(c14WriteActions), Run: runC14})
}

type c14Outcome struct {
	err     error
	rows    string
	okTable bool // the statement left a usable table handle
}

func runC14(x *Exec) {
	var p C14Params
	if !x.Params(&p) || !p.MW.Valid() {
		x.Invalid()
		return
	}
	isWrite := false
	known := false
	for _, a := range c14WriteActions {
		if a == p.Action {
			isWrite, known = true, true
		}
	}
	for _, a := range c14ReadActions {
		known = known || a == p.Action
	}
	if !known {
		x.Invalid()
		return
	}
	x.Bubble(func(w *World) {
		mp := &p.MW
		w.Policy = "random"
		m := NewMWRun(x, w, mp)
		var writers []*Client
		for i := range mp.Scripts {
			writers = append(writers, w.NewClient(fmt.Sprintf("c%d", i)))
		}
		v := w.NewClient("v")
		chk := w.NewClient("chk")
		for _, c := range writers {
			var err error
			w.Solo(c, func() { err = m.OpenTable(c, false) })
			if err != nil {
				x.Fail("C14-unexpected-error", "setup open: %v", err)
				return
			}
		}
		for i, c := range writers {
			c, script := c, mp.Scripts[i]
			w.Go(c, func() { m.RunScript(c, script) })
		}
		w.Run()
		w.CheckPanics()
		if w.Viol != nil {
			return
		}
		if len(m.Errs) > 0 {
			x.Fail("C14-unexpected-error", "setup: %s", strings.Join(m.Errs, "; "))
			return
		}
		w.AdvanceClock(5 * time.Second)
		base := CopyBucket(w.S.Bucket)
		cur, _ := m.Lay.Versions(base)
		x.ProbeN("state-has-2+-unmerged-versions", b2i(len(cur) >= 2))

		// all committed rows, read cleanly
		readAll := func(c *Client) (string, error) {
			var rows [][]string
			var err error
			c.Restart()
			w.Solo(c, func() {
				t := w.TableName("chk")
				if _, err = c.Exec(c.CreateSQL(t, m.tableOpts(true))); err != nil {
					return
				}
				rows, err = c.Query("select * from " + t)
			})
			return RowsString(rows), err
		}
		allRows, err := readAll(chk)
		if err != nil {
			x.Fail("C14-unexpected-error", "clean read of the state: %v", err)
			return
		}
		var allRowsList [][]string
		w.Solo(chk, func() {
			t := w.TableName("chk2")
			chk.Exec(chk.CreateSQL(t, m.tableOpts(true)))
			allRowsList, _ = chk.Query("select * from " + t)
		})
		keyOf := func(i int) int64 {
			if len(allRowsList) == 0 {
				return 1
			}
			var k int64
			fmt.Sscanf(allRowsList[i%len(allRowsList)][0], "i:%d", &k)
			return k
		}

		// ---- one attempt: reset state, fresh process, optional fault, run the action ----
		var vt string // table name of the victim connection (when it has one)
		attempt := func(fs *FaultSpec, deadline bool) (out c14Outcome, nreq int, elapsed time.Duration) {
			w.S.Bucket = CopyBucket(base)
			v.Restart()
			vt = ""
			setupRO := p.Action == "select" || p.Action == "select-range" || p.Action == "select-desc" || p.Action == "point" || p.Action == "refresh-ro" || p.Action == "changes" || p.Action == "count"
			setupRW := isWrite || p.Action == "refresh-rw"
			var serr error
			w.Solo(v, func() {
				if setupRO || setupRW {
					vt = w.TableName("v")
					_, serr = v.Exec(v.CreateSQL(vt, m.tableOpts(setupRO)))
				}
			})
			if serr != nil {
				out.err = fmt.Errorf("SETUP: %w", serr)
				return
			}
			if setupRW {
				// the read-write open merged and committed; that is part of the state now, not of the action
			}
			before := len(w.S.Log)
			t0 := time.Now()
			w.Budget = w.Stats.Steps + 4000
			if fs != nil {
				cp := *fs
				w.Faults = []*FaultSpec{&cp}
			}
			w.Solo(v, func() {
				if deadline {
					if _, err := v.Exec("update s3db_conn set deadline=?", FmtTime(time.Now().Add(3*time.Second))); err != nil {
						out.err = fmt.Errorf("SETUP: deadline: %w", err)
						return
					}
				}
				out = c14Action(w, m, v, &vt, p.Action, keyOf(p.Arg), keyOf(p.Arg+3))
				if deadline {
					v.Exec("update s3db_conn set deadline=NULL")
				}
			})
			w.Faults = nil
			elapsed = time.Since(t0)
			for _, e := range w.S.Log[before:] {
				if e.Client == "v" && e.Op != OpStep {
					nreq++
				}
			}
			return
		}

		clean, n, _ := attempt(nil, false)
		if w.Viol != nil {
			return
		}
		if clean.err != nil {
			x.Fail("C14-unexpected-error", "action %s fails without any fault: %v", p.Action, clean.err)
			return
		}
		x.Sig(p.Action, n, LogHash(w.S.Log))
		if n >= 2 {
			x.Nontrivial()
		}
		x.ProbeN("requests-in-clean-action", n)
		// expected visible rows after the action, read by a new connection (write path)
		afterRows := allRows
		if isWrite {
			var err error
			afterRows, err = readAll(chk)
			if err != nil {
				x.Fail("C14-unexpected-error", "clean read after clean %s: %v", p.Action, err)
				return
			}
			if p.Action == "vacuum" && afterRows != allRows {
				x.Fail("C14-vacuum-changed-rows", "vacuum changed rows: %s -> %s", allRows, afterRows)
				return
			}
		}
		kinds := []Fault{FaultErr, FaultStall}
		if isWrite {
			kinds = []Fault{FaultErr, FaultLostReply, FaultStall}
		}
		for i := 1; i <= n; i++ {
			for _, kind := range kinds {
				for _, persistent := range []bool{false, true} {
					if x.Failed() || w.Viol != nil {
						return
					}
					x.Check()
					fs := &FaultSpec{Client: "v", Nth: i, Kind: kind, Persistent: persistent}
					out, _, elapsed := attempt(fs, kind == FaultStall)
					w.CheckPanics()
					if w.Viol != nil {
						return
					}
					desc := fmt.Sprintf("%s with request %d/%d %s (persistent=%v)", p.Action, i, n, kind, persistent)
					if out.err != nil && strings.HasPrefix(out.err.Error(), "SETUP") {
						x.Fail("C14-unexpected-error", "%s: %v", desc, out.err)
						return
					}
					if kind == FaultStall && elapsed > 3*time.Second+time.Millisecond {
						x.Fail("C14-deadline-overrun", "%s: statement returned %v after the deadline was set (deadline 3s)", desc, elapsed)
						return
					}
					if !isWrite {
						if out.err == nil && out.rows != clean.rows {
							x.Fail("C14-wrong-answer", "%s: statement succeeded with %s; the fault-free answer is %s", desc, out.rows, clean.rows)
							return
						}
					}
					// the fault has cleared. First a plain statement on the same connection WITHOUT a
					// refresh: it may fail, it may not crash, and what it returns must be committed data
					if vt != "" && out.okTable {
						var plain string
						var perr error
						w.Solo(v, func() {
							var rows [][]string
							rows, perr = v.Query("select * from " + vt)
							plain = RowsString(rows)
						})
						w.CheckPanics()
						if w.Viol != nil {
							return
						}
						if isWrite && kind == FaultErr && out.err != nil && perr == nil && plain != allRows {
							// a clean error (request not applied) that failed the statement: nothing was committed, and
							// SQLite rolled the transaction back, so the connection must be back at the old rows
							x.Fail("C14-failed-write-visible", "%s: the statement failed (%v) and nothing was stored, but the same connection now shows %s instead of %s", desc, out.err, plain, allRows)
							return
						}
						if perr == nil && plain != allRows && plain != afterRows {
							x.Fail("C14-wrong-answer", "%s: the next SELECT on the same connection (no refresh) returns %s: neither %s nor %s", desc, plain, allRows, afterRows)
							return
						}
						x.Probe("post-fault-select-without-refresh")
					}
					// then: same connection after refresh, and a new connection
					if vt != "" && out.okTable {
						var same string
						var rerr, werr error
						w.Solo(v, func() {
							if _, rerr = v.Query("select s3db_refresh(?)", vt); rerr != nil {
								return
							}
							var rows [][]string
							rows, rerr = v.Query("select * from " + vt)
							same = RowsString(rows)
							if isWrite || p.Action == "open-rw" || p.Action == "refresh-rw" {
								v.SetWriteTime(int64(1000 * time.Second))
								_, werr = v.Exec(fmt.Sprintf("insert into %s(k) values (-4242)", vt))
								v.Exec(fmt.Sprintf("delete from %s where k=-4242", vt))
							}
						})
						if rerr != nil {
							x.Fail("C14-no-recovery", "%s: after the fault cleared, refresh+select on the same connection fails: %v", desc, rerr)
							return
						}
						if werr != nil {
							x.Fail("C14-no-recovery", "%s: after the fault cleared, the same connection cannot write: %v", desc, werr)
							return
						}
						if !isWrite && same != allRows {
							x.Fail("C14-lost-after-fault", "%s: after the fault cleared and a refresh the connection sees %s, committed data is %s", desc, same, allRows)
							return
						}
						if isWrite {
							if out.err == nil && same != afterRows {
								x.Fail("C14-acked-not-visible", "%s: statement reported success but after a refresh the connection sees %s instead of %s", desc, same, afterRows)
								return
							}
							if same != allRows && same != afterRows {
								x.Fail("C14-partial-write", "%s: after the fault the connection sees %s: neither before %s nor after %s", desc, same, allRows, afterRows)
								return
							}
						}
					}
					fresh, ferr := readAll(chk)
					if ferr != nil {
						x.Fail("C14-no-recovery", "%s: after the fault cleared a new connection cannot read: %v", desc, ferr)
						return
					}
					fresh = strings.Replace(fresh, "[i:-4242,null | ", "[", 1)
					if !isWrite && fresh != allRows {
						x.Fail("C14-lost-after-fault", "%s: a new connection sees %s, committed data was %s", desc, fresh, allRows)
						return
					}
					if isWrite && kind == FaultErr && out.err != nil && fresh != allRows {
						x.Fail("C14-failed-write-published", "%s: the statement failed (%v) with nothing stored, yet after one more unrelated write on that connection a new connection sees %s instead of %s", desc, out.err, fresh, allRows)
						return
					}
					if isWrite {
						if out.err == nil && fresh != afterRows {
							x.Fail("C14-acked-not-visible", "%s: statement reported success but a new connection sees %s instead of %s", desc, fresh, afterRows)
							return
						}
						if fresh != allRows && fresh != afterRows {
							x.Fail("C14-partial-write", "%s: a new connection sees %s: neither before %s nor after %s", desc, fresh, allRows, afterRows)
							return
						}
					}
					if out.err != nil {
						x.Probe("fault-surfaced-as-error")
					} else {
						x.Probe("fault-absorbed-correct-result")
					}
				}
			}
		}
	})
}

// c14Action runs the statement under test on the victim connection.
func c14Action(w *World, m *MWRun, v *Client, vt *string, action string, k1, k2 int64) (out c14Outcome) {
	t := *vt
	q := func(sql string, args ...interface{}) {
		rows, err := v.Query(sql, args...)
		out.err, out.rows = err, RowsString(rows)
		out.okTable = true
	}
	switch action {
	case "open-ro", "open-rw":
		t = w.TableName("v")
		if _, err := v.Exec(v.CreateSQL(t, m.tableOpts(action == "open-ro"))); err != nil {
			out.err = err
			return
		}
		*vt = t
		q("select * from " + t)
	case "select":
		q("select * from " + t)
	case "count":
		q("select count(*), min(k), max(k) from " + t)
	case "select-range":
		if k1 > k2 {
			k1, k2 = k2, k1
		}
		q("select * from "+t+" where k>=? and k<=?", k1, k2)
	case "select-desc":
		q("select * from " + t + " order by k desc")
	case "point":
		q("select * from "+t+" where k=?", k1)
	case "refresh-ro", "refresh-rw":
		if _, err := v.Query("select s3db_refresh(?)", t); err != nil {
			out.err = err
			out.okTable = true
			return
		}
		q("select * from " + t)
	case "changes":
		vers, err := v.Versions(t)
		if err != nil {
			out.err = err
			out.okTable = true
			return
		}
		ct := w.TableName("chg")
		js := "["
		for i, s := range vers {
			if i > 0 {
				js += ","
			}
			js += `"` + s + `"`
		}
		js += "]"
		if _, err := v.Exec(fmt.Sprintf(`create virtual table %s using s3db_changes(table=%s, from='[]', to='%s')`, ct, t, js)); err != nil {
			out.err = err
			out.okTable = true
			return
		}
		q("select * from " + ct)
		v.Exec("drop table " + ct)
	case "insert":
		v.SetWriteTime(int64(500 * time.Second))
		_, out.err = v.Exec(fmt.Sprintf("insert into %s(k,%s) values (?,?)", t, m.P.Cols[0]), 777777, 7)
		out.okTable = true
	case "update":
		v.SetWriteTime(int64(500 * time.Second))
		_, out.err = v.Exec(fmt.Sprintf("update %s set %s=? where k=?", t, m.P.Cols[0]), 7, k1)
		out.okTable = true
	case "delete":
		v.SetWriteTime(int64(500 * time.Second))
		_, out.err = v.Exec(fmt.Sprintf("delete from %s where k=?", t), k1)
		out.okTable = true
	case "txn":
		out.okTable = true
		v.SetWriteTime(int64(500 * time.Second))
		if _, out.err = v.Exec("BEGIN"); out.err != nil {
			return
		}
		if _, out.err = v.Exec(fmt.Sprintf("insert into %s(k,%s) values (?,?)", t, m.P.Cols[0]), 777777, 7); out.err == nil {
			if _, out.err = v.Exec(fmt.Sprintf("delete from %s where k=?", t), k1); out.err == nil {
				_, out.err = v.Exec(fmt.Sprintf("insert into %s(k) values (?)", t), 888888)
			}
		}
		if out.err != nil {
			v.Exec("ROLLBACK")
			return
		}
		if _, out.err = v.Exec("COMMIT"); out.err != nil {
			v.Exec("ROLLBACK")
		}
	case "vacuum":
		out.okTable = true
		rows, err := v.Query("select * from s3db_vacuum(?, ?)", t, FmtTime(time.Now())[:19])
		out.err = err
		if err == nil && (len(rows) != 1 || rows[0][0] != "null") {
			out.err = fmt.Errorf("vacuum reported: %s", RowsString(rows))
		}
	}
	return
}
