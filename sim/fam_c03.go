package sim

// C03: concurrent open and commit never hide or lose a committed version.
// Clients insert rows with unique keys ("tags"), so every view is a set of
// tags and every version's content is a set of tags; the oracle is a
// set-inclusion check over the event-sequence-stamped history.

import (
	"fmt"
	"math/rand/v2"
	"sort"
	"strings"
)

type C03Op struct {
	Op  string `json:"op"` // write refresh reopen check
	Tag int    `json:"tag,omitempty"`
}

type C03Params struct {
	EPN     int          `json:"epn"`
	Cache   int          `json:"cache"`
	Writers [][]C03Op    `json:"writers"`
	Readers [][]C03Op    `json:"readers"` // read-only observers: reopen / refresh / check
	Policy  string       `json:"policy"`
	Perm    bool         `json:"perm"`
	Faults  []*FaultSpec `json:"faults,omitempty"` // crash of one writer mid-commit
	Jitter  bool         `json:"jitter"`
}

func init() {
	Register(&Family{Property: "C03", Name: "open-vs-commit", Gen: func(r *rand.Rand, tier string) interface{} {
		p := &C03Params{EPN: []int{2, 4, 0}[r.IntN(3)], Cache: []int{0, 4}[r.IntN(2)]}
		p.Policy = []string{"random", "sticky", "hold-list", "hold-list"}[r.IntN(4)]
		p.Perm = r.IntN(2) == 0
		p.Jitter = r.IntN(3) == 0
		nw := 2 + r.IntN(3)
		tag := 0
		for i := 0; i < nw; i++ {
			var s []C03Op
			n := 1 + r.IntN(4)
			for j := 0; j < n; j++ {
				tag++
				s = append(s, C03Op{Op: "write", Tag: tag})
				switch r.IntN(5) {
				case 0:
					s = append(s, C03Op{Op: "refresh"})
				case 1:
					s = append(s, C03Op{Op: "reopen"})
				case 2:
					s = append(s, C03Op{Op: "check"})
				}
			}
			p.Writers = append(p.Writers, s)
		}
		nr := r.IntN(3)
		for i := 0; i < nr; i++ {
			var s []C03Op
			n := 1 + r.IntN(4)
			for j := 0; j < n; j++ {
				s = append(s, C03Op{Op: []string{"reopen", "refresh", "reopen"}[r.IntN(3)]})
			}
			p.Readers = append(p.Readers, s)
		}
		if r.IntN(4) == 0 {
			// one writer crashes somewhere inside its work (often inside retirement)
			p.Faults = []*FaultSpec{{Client: fmt.Sprintf("w%d", r.IntN(nw)), Nth: 3 + r.IntN(12), Kind: FaultCrash}}
		}
		return p
	}, Run: runC03})
}

type c03Write struct {
	tag        int
	start, ack int // event counts at call / return; ack<0: not acknowledged
	failed     bool
}

type c03View struct {
	client     string
	label      string
	begin, end int
	tags       map[int]bool
	rw         bool
}

func runC03(x *Exec) {
	var p C03Params
	if !x.Params(&p) || len(p.Writers) == 0 || len(p.Writers) > 5 || len(p.Readers) > 4 || p.EPN == 1 || p.EPN < 0 {
		x.Invalid()
		return
	}
	seenTag := map[int]bool{}
	for _, s := range p.Writers {
		for _, op := range s {
			if op.Op == "write" {
				if op.Tag <= 0 || seenTag[op.Tag] {
					x.Invalid()
					return
				}
				seenTag[op.Tag] = true
			}
		}
	}
	x.Bubble(func(w *World) {
		w.Policy = p.Policy
		w.PermuteMerge = p.Perm
		w.Jitter = p.Jitter
		for _, f := range p.Faults {
			cp := *f
			w.Faults = append(w.Faults, &cp)
		}
		lay := TableLayout("p")
		opts := func(ro bool) TableOpts {
			return TableOpts{Prefix: "p", Columns: "k primary key, a", EPN: p.EPN, Cache: p.Cache, ReadOnly: ro}
		}
		// content of every version object, by name
		content := map[string]map[int]bool{}
		w.S.Observer = func(ev *Event, req *Request, before []byte, existed bool) {
			if req.Op == OpPut && ev.Applied && strings.HasPrefix(req.Key, lay.Current) {
				name := strings.TrimPrefix(req.Key, lay.Current)
				if r, err := DecodeRoot(name, req.Body); err == nil {
					wt := Walk(w.S.Bucket, lay.Node, r)
					tags := map[int]bool{}
					for _, e := range wt.Entries {
						if e.Live() {
							tags[int(e.Key.I)] = true
						}
					}
					if !wt.OK() {
						x.Fail("C03-incomplete-version", "version %s stored while incomplete: %s", name, wt.Err())
					}
					content[name] = tags
				}
			}
		}
		var writes []*c03Write
		var views []*c03View
		var errs []string
		crashed := map[string]bool{}
		for _, f := range p.Faults {
			if f.Kind == FaultCrash {
				crashed[f.Client] = true
			}
		}
		tagVersion := map[int]string{}
		view := func(c *Client, table, label string, begin int, rw bool) {
			rows, err := c.Query("select k from " + table)
			if err != nil {
				if !crashed[c.Name] {
					errs = append(errs, fmt.Sprintf("%s %s: select: %v", c.Name, label, err))
				}
				return
			}
			v := &c03View{client: c.Name, label: label, begin: begin, end: len(w.S.Log), tags: map[int]bool{}, rw: rw}
			for _, r := range rows {
				var k int
				fmt.Sscanf(r[0], "i:%d", &k)
				v.tags[k] = true
			}
			views = append(views, v)
		}
		run := func(c *Client, script []C03Op, ro bool) {
			var table string
			open := func(label string) bool {
				if table != "" {
					c.Exec("drop table " + table)
				}
				table = w.TableName(c.Name)
				begin := len(w.S.Log)
				if _, err := c.Exec(c.CreateSQL(table, opts(ro))); err != nil {
					if !crashed[c.Name] {
						errs = append(errs, fmt.Sprintf("%s %s: %v", c.Name, label, err))
					}
					table = ""
					return false
				}
				view(c, table, label, begin, !ro)
				return true
			}
			c.Step("open")
			if !open("open") {
				return
			}
			for _, op := range script {
				c.Step(op.Op)
				switch op.Op {
				case "write":
					wr := &c03Write{tag: op.Tag, start: len(w.S.Log), ack: -1}
					writes = append(writes, wr)
					_, err := c.Exec(fmt.Sprintf("insert into %s values (?, ?)", table), op.Tag, op.Tag)
					if err != nil {
						wr.failed = true
						if !crashed[c.Name] {
							errs = append(errs, fmt.Sprintf("%s write %d: %v", c.Name, op.Tag, err))
						}
						if crashed[c.Name] {
							return // the process is gone
						}
						continue
					}
					wr.ack = len(w.S.Log)
					if vs, err := c.Versions(table); err == nil && len(vs) == 1 {
						tagVersion[op.Tag] = vs[0]
					}
				case "refresh":
					begin := len(w.S.Log)
					if _, err := c.Query("select s3db_refresh(?)", table); err != nil {
						if !crashed[c.Name] {
							errs = append(errs, fmt.Sprintf("%s refresh: %v", c.Name, err))
						}
						if crashed[c.Name] {
							return
						}
						continue
					}
					view(c, table, "refresh", begin, !ro)
				case "reopen":
					if !open("reopen") {
						return
					}
				case "check":
					// a plain read of the current handle: no open involved, lower bound = what this handle had
				}
			}
		}
		var wc, rc []*Client
		for i := range p.Writers {
			wc = append(wc, w.NewClient(fmt.Sprintf("w%d", i)))
		}
		for i := range p.Readers {
			rc = append(rc, w.NewClient(fmt.Sprintf("o%d", i)))
		}
		fin := w.NewClient("final")
		for i, s := range p.Writers {
			c, s := wc[i], s
			w.Go(c, func() { run(c, s, false) })
		}
		for i, s := range p.Readers {
			c, s := rc[i], s
			w.Go(c, func() { run(c, s, true) })
		}
		w.Run()
		w.CheckPanics()
		if w.Viol != nil || x.Failed() {
			return
		}
		if len(errs) > 0 {
			x.Fail("C03-unexpected-error", "%s", strings.Join(errs, "; "))
			return
		}
		// quiescent: final opens
		for round := 0; round < 3; round++ {
			ro := round != 1
			w.Solo(fin, func() {
				t := w.TableName("final")
				begin := len(w.S.Log)
				if _, err := fin.Exec(fin.CreateSQL(t, opts(ro))); err != nil {
					errs = append(errs, fmt.Sprintf("final open %d: %v", round, err))
					return
				}
				view(fin, t, fmt.Sprintf("final%d", round), begin, !ro)
				fin.Exec("drop table " + t)
			})
		}
		if len(errs) > 0 {
			x.Fail("C03-unexpected-error", "%s", strings.Join(errs, "; "))
			return
		}
		// ---- oracle ----
		maybe := map[int]bool{} // un-acknowledged writes may or may not be there
		for _, wr := range writes {
			if wr.ack < 0 {
				maybe[wr.tag] = true
			}
		}
		interleaved := 0
		for _, v := range views {
			x.Check()
			for _, wr := range writes {
				if wr.ack >= 0 && wr.ack <= v.begin && !v.tags[wr.tag] {
					x.Fail("C03-hidden", "%s %s (events %d..%d) does not contain tag %d whose commit was acknowledged at event %d, before the open began; view=%v",
						v.client, v.label, v.begin, v.end, wr.tag, wr.ack, setOf(v.tags))
					return
				}
				if v.tags[wr.tag] && wr.start >= v.end {
					x.Fail("C03-unexplained", "%s %s contains tag %d whose commit started after the open ended", v.client, v.label, wr.tag)
					return
				}
				if wr.start < v.end && (wr.ack < 0 || wr.ack > v.begin) {
					interleaved++
				}
			}
			for tag := range v.tags {
				if !seenTag[tag] {
					x.Fail("C03-unexplained", "%s %s contains row %d that nobody wrote", v.client, v.label, tag)
					return
				}
				if ver, ok := tagVersion[tag]; ok {
					for t2 := range content[ver] {
						if !v.tags[t2] {
							x.Fail("C03-unexplained", "%s %s (events %d..%d) contains tag %d but not tag %d, which is part of the version that committed %d (%s): no union of committed versions explains view=%v",
								v.client, v.label, v.begin, v.end, tag, t2, tag, ver, setOf(v.tags))
							return
						}
					}
				}
			}
		}
		x.ProbeN("open-overlapping-a-commit", interleaved)
		if interleaved > 0 {
			x.Nontrivial()
		}
		skipped := 0
		for _, e := range w.S.Log {
			if e.Op == OpGet && e.Outcome == "nosuchkey" && strings.HasPrefix(e.Key, lay.Current) {
				skipped++
			}
		}
		x.ProbeN("open-found-listed-version-retired", skipped)
		x.Sig(LogHash(w.S.Log))
	})
}

func setOf(m map[int]bool) []int {
	var s []int
	for k := range m {
		s = append(s, k)
	}
	sort.Ints(s)
	return s
}
