package sim

// C16, third family: a writer with a node cache while a peer vacuums. mast
// uses the node cache not only to avoid downloads but also to skip storing a
// node whose name the cache has seen ("flush writes only dirty nodes,
// content-named; node cache suppresses re-stores"). A peer's vacuum deletes
// node objects from the bucket; the writer's cache does not learn of it. The
// property is unchanged: immediately after the writer's commit is
// acknowledged, every object the version refers to exists in the bucket.

import (
	"fmt"
	"math/rand/v2"
	"os"
	"regexp"
	"sort"
	"strings"
	"time"
)

var persistLoadRe = regexp.MustCompile(`persist load ([A-Za-z0-9_-]{40,48})`)

type C16POp struct {
	Kind string `json:"kind"` // insert update delete w-vacuum p-vacuum w-refresh
	Key  int    `json:"key,omitempty"`
	Val  int    `json:"val,omitempty"`
	Back int    `json:"back,omitempty"` // vacuums: cutoff = now - Back seconds (0 = now)
	Nth  int    `json:"nth,omitempty"`  // w-vacuum: the Nth DELETE request of the vacuum gets Fault (0 = none)
	Lost bool   `json:"lost,omitempty"` // the fault is a lost response (applied, error returned) instead of a clean error
}

type C16PParams struct {
	EPN    int      `json:"epn"`
	Cache  int      `json:"cache"`
	Ops    []C16POp `json:"ops"`
	Policy string   `json:"policy"`
}

func init() {
	Register(&Family{Property: "C16", Name: "peer-vacuum-cache", Gen: func(r *rand.Rand, tier string) interface{} {
		p := &C16PParams{EPN: []int{2, 2, 3, 4}[r.IntN(4)], Cache: []int{8, 64, 1000, 1000}[r.IntN(4)], Policy: []string{"fifo", "random"}[r.IntN(2)]}
		n := 4 + r.IntN(9)
		nkeys := 2 + r.IntN(7)
		if r.IntN(7) == 0 {
			// to nothing: every row is deleted again and the table vacuumed (twice: the second vacuum finds
			// the empty version the first one committed older than its cutoff), then statements that change
			// nothing, then perhaps a row again. "Committing when nothing changed writes nothing" holds for
			// a handle that stands on no stored version as well.
			m := 1 + r.IntN(3)
			keys := r.Perm(8)[:m]
			for i, k := range keys {
				p.Ops = append(p.Ops, C16POp{Kind: "insert", Key: k, Val: i + 1})
			}
			for _, k := range keys {
				p.Ops = append(p.Ops, C16POp{Kind: "delete", Key: k})
			}
			p.Ops = append(p.Ops, C16POp{Kind: "w-vacuum"})
			if r.IntN(4) != 0 {
				p.Ops = append(p.Ops, C16POp{Kind: "w-vacuum"})
			}
			for i, n := 0, 1+r.IntN(2); i < n; i++ {
				p.Ops = append(p.Ops, C16POp{Kind: []string{"update", "delete"}[r.IntN(2)], Key: keys[0], Val: 7})
			}
			if r.IntN(2) == 0 {
				p.Ops = append(p.Ops, C16POp{Kind: "insert", Key: keys[m-1], Val: 99})
				p.Ops = append(p.Ops, C16POp{Kind: "update", Key: 8, Val: 5})
			}
			return p
		}
		if r.IntN(3) == 0 {
			// there and back: rows are added, a vacuum (by the peer, or the writer's own with a storage fault
			// inside) removes the history, the rows are deleted again and purged: the tree returns to content
			// it had before, node for node
			m := 2 + r.IntN(4)
			keys := r.Perm(8)[:m]
			for i, k := range keys {
				p.Ops = append(p.Ops, C16POp{Kind: "insert", Key: k, Val: i + 1})
			}
			v := C16POp{Kind: []string{"p-vacuum", "w-vacuum", "w-vacuum"}[r.IntN(3)]}
			if v.Kind == "w-vacuum" && r.IntN(4) != 0 {
				v.Nth, v.Lost = 1+r.IntN(4), r.IntN(2) == 0
			}
			p.Ops = append(p.Ops, v)
			back := 1 + r.IntN(m-1)
			for i := 0; i < back; i++ {
				p.Ops = append(p.Ops, C16POp{Kind: "delete", Key: keys[m-1-i]})
			}
			p.Ops = append(p.Ops, C16POp{Kind: "w-vacuum"})
			if r.IntN(2) == 0 {
				p.Ops = append(p.Ops, C16POp{Kind: "insert", Key: keys[m-1], Val: 99})
			}
			return p
		}
		for i := 0; i < n; i++ {
			op := C16POp{Key: r.IntN(nkeys), Val: i + 1}
			switch k := r.IntN(20); {
			case k < 7:
				op.Kind = "insert"
			case k < 9:
				op.Kind = "update"
			case k < 14:
				op.Kind = "delete"
			case k < 17:
				op.Kind = "p-vacuum"
				op.Back = []int{0, 0, 1, 2, 3}[r.IntN(5)]
			case k < 19:
				op.Kind = "w-vacuum"
				op.Back = []int{0, 0, 1, 2}[r.IntN(4)]
				if r.IntN(3) == 0 {
					op.Nth, op.Lost = 1+r.IntN(4), r.IntN(2) == 0
				}
			default:
				op.Kind = "w-refresh"
			}
			p.Ops = append(p.Ops, op)
		}
		return p
	}, Run: runC16Peer})
}

func runC16Peer(x *Exec) {
	var p C16PParams
	if !x.Params(&p) || p.EPN == 1 || p.EPN < 0 || p.Cache < 0 || len(p.Ops) == 0 || len(p.Ops) > 16 {
		x.Invalid()
		return
	}
	for _, op := range p.Ops {
		if !strings.Contains(" insert update delete w-vacuum p-vacuum w-refresh ", " "+op.Kind+" ") || op.Back < 0 || op.Back > 100 {
			x.Invalid()
			return
		}
	}
	x.Bubble(func(w *World) {
		w.Policy = p.Policy
		lay := TableLayout("p")
		InstallImmutability(w, x, lay)
		wr := w.NewClient("w")
		peer := w.NewPassiveClient("peer")
		opts := TableOpts{Prefix: "p", Columns: "k primary key, a", EPN: p.EPN, Cache: p.Cache}
		t := w.TableName("w")
		var fatal error
		w.Solo(wr, func() { _, fatal = wr.Exec(wr.CreateSQL(t, opts)) })
		if fatal != nil {
			x.Fail("C16-open", "writer cannot open: %v", fatal)
			return
		}
		model := map[int]int{}
		modelRows := func() string {
			var ks []int
			for k := range model {
				ks = append(ks, k)
			}
			sort.Ints(ks)
			rows := [][]string{}
			for _, k := range ks {
				rows = append(rows, []string{fmt.Sprintf("i:%d", k), fmt.Sprintf("i:%d", model[k])})
			}
			return RowsString(rows)
		}
		acked, peerDeletedNodes := 0, 0
		// A vacuum stopped by a storage error has deleted some of the nodes of versions it condemned but
		// not yet the versions. A later vacuum with an earlier cutoff counts such a version as retained,
		// cannot load it and refuses (the safe answer: it cannot tell which nodes that version shares).
		interrupted := false
		halfDeleted := func(err error) bool {
			return interrupted && strings.Contains(err.Error(), "load retained version") && strings.Contains(err.Error(), "NoSuchKey")
		}
		// after an acknowledged statement of the writer: every current version is complete in the
		// bucket, and a fresh empty-cache process reads exactly the rows written so far
		verify := func(label string) bool {
			cur, _ := lay.Versions(w.S.Bucket)
			for _, v := range cur {
				x.Check()
				wt, err := lay.WalkVersion(w.S.Bucket, v)
				if os.Getenv("VERIF_TRACE") != "" {
					fmt.Fprintf(os.Stderr, "   tree after %s: %s %s\n", label, v, lay.DumpVersion(w.S.Bucket, v))
				}
				if err != nil || !wt.OK() {
					es := fmt.Sprint(err)
					class := "C16-incomplete"
					if wt != nil {
						es = wt.Err()
						if len(wt.Problems) == 0 && len(wt.Missing) > 0 && allPeerDeletedWhileCached(w, lay, wt.Missing) {
							// open finding KF-28: every missing node was in the writer's cache (it had stored or
							// loaded it), was then deleted by the peer process's vacuum, and was never stored again
							class = "C16-incomplete-node-deleted-by-peer-vacuum"
						}
					}
					x.Fail(class, "%s: current version %s is not readable from the bucket alone: %s", label, v, es)
					return false
				}
			}
			f := w.NewPassiveClient("fresh")
			f.Open()
			defer f.CloseDB()
			ft := w.TableName("fresh")
			o := opts
			o.ReadOnly = true
			o.Cache = 0
			if _, err := f.Exec(f.CreateSQL(ft, o)); err != nil {
				x.Fail("C16-fresh-open", "%s: fresh read-only open fails: %v", label, err)
				return false
			}
			defer f.Exec("drop table " + ft)
			asc, err := f.Query("select * from " + ft + " order by k")
			if err != nil {
				x.Fail("C16-fresh-scan", "%s: fresh scan fails: %v", label, err)
				return false
			}
			if got, want := RowsString(asc), modelRows(); got != want {
				x.Fail("C16-tree-differs", "%s: a fresh process reads %s, the writer wrote %s", label, got, want)
				return false
			}
			return true
		}
		vacuum := func(c *Client, tab string, back int) (string, error) {
			cut := time.Now().Add(-time.Duration(back) * time.Second)
			rows, err := c.Query("select * from s3db_vacuum(?, ?)", tab, FmtTime(cut))
			if err != nil {
				return "", err
			}
			if len(rows) == 1 {
				return rows[0][0], nil
			}
			return RowsString(rows), nil
		}
		w.Go(wr, func() {
			for i, op := range p.Ops {
				if x.Failed() {
					return
				}
				wr.Step("advance:1000000000")
				wr.Step(fmt.Sprintf("op%d:%s", i, op.Kind))
				label := fmt.Sprintf("op %d (%s k=%d)", i, op.Kind, op.Key)
				var err error
				_, present := model[op.Key]
				changesNothing := (op.Kind == "update" || op.Kind == "delete") && !present
				m0 := len(w.S.Mut)
				switch op.Kind {
				case "insert":
					if _, ok := model[op.Key]; ok {
						_, err = wr.Exec(fmt.Sprintf("update %s set a=%d where k=%d", t, op.Val, op.Key))
					} else {
						_, err = wr.Exec(fmt.Sprintf("insert into %s(k,a) values (%d,%d)", t, op.Key, op.Val))
					}
					model[op.Key] = op.Val
				case "update":
					_, err = wr.Exec(fmt.Sprintf("update %s set a=%d where k=%d", t, op.Val, op.Key))
					if _, ok := model[op.Key]; ok {
						model[op.Key] = op.Val
					}
				case "delete":
					_, err = wr.Exec(fmt.Sprintf("delete from %s where k=%d", t, op.Key))
					delete(model, op.Key)
				case "w-refresh":
					_, err = wr.Query("select s3db_refresh(?)", t)
				case "w-vacuum":
					var res string
					if op.Nth > 0 {
						kind := FaultErr
						if op.Lost {
							kind = FaultLostReply
						}
						w.Faults = []*FaultSpec{{Client: "w", Op: OpDelete, Nth: op.Nth, Kind: kind}}
					}
					res, err = vacuum(wr, t, op.Back)
					if err == nil && strings.Contains(res, "s3db_refresh") {
						x.Probe("writer-vacuum-refused")
						if _, err = wr.Query("select s3db_refresh(?)", t); err == nil {
							res, err = vacuum(wr, t, op.Back)
						}
					}
					fired := op.Nth > 0 && w.Faults[0].Fired > 0
					w.Faults = nil
					if err == nil && res != "null" {
						err = fmt.Errorf("vacuum: %s", res)
					}
					if fired && err != nil {
						// a vacuum that met a storage error may fail; what it leaves behind is checked like everything else
						x.Probe("writer-vacuum-failed-by-fault")
						interrupted = true
						err = nil
					} else if err != nil && halfDeleted(err) {
						x.Probe("vacuum-refused-after-interrupted-vacuum")
						err = nil
					} else if err == nil {
						x.Probe("writer-vacuum")
					}
				case "p-vacuum":
					// the peer is a separate process: new connection, no cache, opens, vacuums, leaves
					var res string
					m0 := len(w.S.Mut)
					peer.Open()
					pt := w.TableName("peer")
					po := opts
					po.Cache = 0
					if _, err = peer.Exec(peer.CreateSQL(pt, po)); err == nil {
						res, err = vacuum(peer, pt, op.Back)
						peer.Exec("drop table " + pt)
					}
					peer.CloseDB()
					if err == nil && res != "null" {
						err = fmt.Errorf("peer vacuum: %s", res)
					}
					if err != nil && halfDeleted(err) {
						x.Probe("vacuum-refused-after-interrupted-vacuum")
						err = nil
					}
					for _, mu := range w.S.Mut[m0:] {
						if mu.Op == OpDelete && strings.HasPrefix(mu.Key, lay.Node) {
							peerDeletedNodes++
						}
					}
					if err == nil {
						x.Probe("peer-vacuum")
					}
				}
				if err != nil {
					class := "C16-unexpected-error"
					if m := persistLoadRe.FindStringSubmatch(err.Error()); m != nil && strings.Contains(err.Error(), "NoSuchKey") && allPeerDeletedWhileCached(w, lay, []string{m[1]}) {
						// KF-28b seen from the writer's side: its own statement trips over the node it skipped storing
						class = "C16-incomplete-node-deleted-by-peer-vacuum"
					}
					x.Fail(class, "%s fails without an injected fault: %v", label, err)
					return
				}
				acked++
				if changesNothing {
					// an UPDATE or DELETE that matches no row: the commit has nothing to publish
					x.Check()
					for _, mu := range w.S.MutBy("w", m0) {
						x.Fail("C16-noop-wrote", "%s matches no row (the table holds %s) but the writer issued %s %s", label, modelRows(), mu.Op, mu.Key)
						return
					}
					x.Probe("noop-statement-checked")
					if len(model) == 0 {
						x.Probe("noop-statement-on-empty-table")
					}
				}
				if !verify(label) {
					return
				}
			}
		})
		w.Run()
		w.CheckPanics()
		if w.Viol != nil || x.Failed() {
			return
		}
		x.ProbeN("peer-vacuum-deleted-nodes", b2i(peerDeletedNodes > 0))
		x.Sig(len(w.S.Log), LogHash(w.S.Log))
		if acked >= 3 && peerDeletedNodes > 0 {
			x.Nontrivial()
		}
	})
}

// allPeerDeletedWhileCached reports whether each of the named node objects was
// stored or loaded by client "w", later deleted by client "peer", and not
// stored again by anyone afterwards.
func allPeerDeletedWhileCached(w *World, lay Layout, names []string) bool {
	for _, n := range names {
		key := lay.Node + n
		seenByWriter, deletedByPeer := false, false
		for _, ev := range w.S.Log {
			if ev.Key != key || (ev.Outcome != "ok" && ev.Outcome != "lost-response") {
				continue
			}
			switch {
			case ev.Client == "w" && (ev.Op == OpPut || ev.Op == OpGet) && !deletedByPeer:
				seenByWriter = true
			case ev.Client == "peer" && ev.Op == OpDelete && seenByWriter:
				deletedByPeer = true
			case ev.Op == OpPut && deletedByPeer:
				deletedByPeer = false // stored again: a later absence has another cause
			case ev.Op == OpDelete && ev.Client != "peer":
				return false
			}
		}
		if !seenByWriter || !deletedByPeer {
			return false
		}
	}
	return true
}
