package sim

// The simulated object store. It is the only durable state of a run and the
// only place where clients interact. Every S3Interface call parks its caller;
// the scheduler (world.go) alone decides which parked request is served next,
// with which fault, and alone mutates the bucket.

import (
	"bytes"
	"context"
	"crypto/sha256"
	"encoding/hex"
	"fmt"
	"io"
	"sort"
	"strings"
	"sync"
	"time"

	"github.com/aws/aws-sdk-go/aws"
	"github.com/aws/aws-sdk-go/aws/awserr"
	"github.com/aws/aws-sdk-go/aws/request"
	"github.com/aws/aws-sdk-go/service/s3"
)

type Op string

const (
	OpList   Op = "LIST"
	OpGet    Op = "GET"
	OpPut    Op = "PUT"
	OpDelete Op = "DELETE"
	OpStep   Op = "STEP" // a client waiting for its next scripted operation
)

// Fault kinds the scheduler can apply to one request.
type Fault string

const (
	FaultNone      Fault = ""
	FaultErr       Fault = "error"         // fails, not applied (transport error / 5xx)
	FaultLostReply Fault = "lost-response" // applied, caller told it failed
	FaultCrash     Fault = "crash"         // this and every later request of the incarnation fails unapplied
	FaultStall     Fault = "stall"         // left parked; only a context deadline releases it
	FaultCorrupt   Fault = "corrupt-read"  // GET returns damaged bytes (bucket intact)
)

type reply struct {
	body      []byte
	keys      []string
	truncated bool
	next      string
	err       error
}

// Request is one parked object-store call.
type Request struct {
	arrival   int // arrival counter; NOT used for ordering (depends on goroutine timing)
	H         *Handle
	Op        Op
	Key       string // object key, or prefix for LIST, or label for STEP
	Body      []byte
	Token     string
	ctx       context.Context
	ch        chan reply
	settled   bool // reply sent or cancelled
	stalled   bool // scheduler decided to leave it parked
	cancelReq bool // the caller's context ended while parked; the scheduler settles it
	Nth       int  // per-incarnation request index (1-based), assigned at arrival in program order per goroutine; see note in submit
}

func (r *Request) BodyHash() string {
	if r.Op != OpPut {
		return ""
	}
	h := sha256.Sum256(r.Body)
	return hex.EncodeToString(h[:6])
}

// Class classifies the object a request addresses: node, current, merged, other.
func (r *Request) Class() string { return KeyClass(r.Key) }

func KeyClass(key string) string {
	switch {
	case strings.Contains(key, "/node/"):
		return "node"
	case strings.Contains(key, "/root/current/"):
		return "current"
	case strings.Contains(key, "/root/merged/"):
		return "merged"
	}
	return "other"
}

func (r *Request) sortKey() string {
	return fmt.Sprintf("%s\x00%04d\x00%s\x00%s\x00%s\x00%s", r.H.Client, r.H.ID, r.Op, r.Key, r.Token, r.BodyHash())
}

func (r *Request) String() string {
	s := fmt.Sprintf("%s/%d %s %s", r.H.Client, r.H.ID, r.Op, r.Key)
	if r.Op == OpPut {
		s += " #" + r.BodyHash()
	}
	return s
}

// Event is one entry of the request log.
type Event struct {
	Seq     int    `json:"seq"`
	Client  string `json:"client"`
	Handle  int    `json:"handle"`
	Op      Op     `json:"op"`
	Key     string `json:"key"`
	Hash    string `json:"hash,omitempty"`
	Outcome string `json:"outcome"` // ok, nosuchkey, error, lost-response, crash, canceled, corrupt-read
	Applied bool   `json:"applied,omitempty"`
	SimNs   int64  `json:"t"`
	N       int    `json:"n,omitempty"` // LIST: number of keys returned
}

func (e Event) String() string {
	return fmt.Sprintf("%d %s/%d %s %s %s %s", e.Seq, e.Client, e.Handle, e.Op, e.Key, e.Hash, e.Outcome)
}

// Mutation is one applied change of the bucket.
type Mutation struct {
	Client string
	Seq    int
	Op     Op
	Key    string
	Body   []byte
}

// Store is the bucket plus the set of parked requests.
type Store struct {
	mu       sync.Mutex
	Bucket   map[string][]byte
	pending  []*Request
	arrivals int
	Log      []Event
	Mut      []Mutation
	PageSize int
	epoch    time.Time

	handles   []*Handle
	Corrupter func(key string, body []byte) []byte
	Observer  func(ev *Event, req *Request, before []byte, existed bool) // online invariants; runs on the scheduler goroutine
}

func NewStore() *Store {
	return &Store{Bucket: map[string][]byte{}, PageSize: 1000, epoch: time.Now()}
}

// Handle is the S3Interface given to one kv.Open call. It identifies the
// client, the incarnation and whether the opener asked for read-only.
type Handle struct {
	S        *Store
	ID       int
	Client   string
	Tag      string
	ReadOnly bool
	Prefix   string
	Historic bool  // opened with OnlyVersions
	Dead     *bool // shared per incarnation: set when the incarnation has "crashed"
	nreq     int
}

func (s *Store) NewHandle(client, tag string, readOnly bool, dead *bool) *Handle {
	s.mu.Lock()
	defer s.mu.Unlock()
	n := 0
	for _, o := range s.handles {
		if o.Client == client {
			n++
		}
	}
	h := &Handle{S: s, ID: n, Client: client, Tag: tag, ReadOnly: readOnly, Dead: dead}
	s.handles = append(s.handles, h)
	return h
}

func (s *Store) Handles() []*Handle { return s.handles }

func (h *Handle) submit(ctx context.Context, r *Request) reply {
	r.H = h
	r.ctx = ctx
	r.ch = make(chan reply, 1)
	s := h.S
	s.mu.Lock()
	s.arrivals++
	r.arrival = s.arrivals
	s.pending = append(s.pending, r)
	s.mu.Unlock()
	var done <-chan struct{}
	if ctx != nil {
		done = ctx.Done()
	}
	select {
	case rep := <-r.ch:
		return rep
	case <-done:
		// The request context ended (deadline). The cancellation is not logged from here: callers of
		// one flush (or of several clients under batch release) would race for the log position. The
		// request is flagged and the scheduler settles all flagged requests in canonical order at the
		// next quiescent point.
		s.mu.Lock()
		if !r.settled {
			r.cancelReq = true
		}
		s.mu.Unlock()
		return <-r.ch
	}
}

// Cancelled returns the parked requests whose context has ended, in canonical order.
func (s *Store) Cancelled() []*Request {
	s.mu.Lock()
	defer s.mu.Unlock()
	var out []*Request
	for _, r := range s.pending {
		if !r.settled && r.cancelReq {
			out = append(out, r)
		}
	}
	sort.SliceStable(out, func(i, j int) bool { return out[i].sortKey() < out[j].sortKey() })
	return out
}

// SettleCancelled answers a request whose context ended the way the AWS SDK does.
func (s *Store) SettleCancelled(r *Request) *Event {
	s.mu.Lock()
	defer s.mu.Unlock()
	if r.settled {
		return nil
	}
	r.settled = true
	s.removeLocked(r)
	ev := s.logLocked(r, "canceled", false, 0)
	var cause error
	if r.ctx != nil {
		cause = r.ctx.Err()
	}
	r.ch <- reply{err: awserr.New(request.CanceledErrorCode, "request context canceled", cause)}
	return ev
}

func (s *Store) removeLocked(r *Request) {
	for i, p := range s.pending {
		if p == r {
			s.pending = append(s.pending[:i], s.pending[i+1:]...)
			return
		}
	}
}

func (s *Store) logLocked(r *Request, outcome string, applied bool, n int) *Event {
	ev := Event{Seq: len(s.Log) + 1, Client: r.H.Client, Handle: r.H.ID, Op: r.Op, Key: r.Key, Hash: r.BodyHash(),
		Outcome: outcome, Applied: applied, SimNs: int64(time.Since(s.epoch)), N: n}
	s.Log = append(s.Log, ev)
	return &s.Log[len(s.Log)-1]
}

// Pending returns the parked requests in canonical order (independent of
// goroutine arrival order).
func (s *Store) Pending() []*Request {
	s.mu.Lock()
	defer s.mu.Unlock()
	out := make([]*Request, 0, len(s.pending))
	for _, r := range s.pending {
		if !r.settled && !r.cancelReq {
			out = append(out, r)
		}
	}
	sort.SliceStable(out, func(i, j int) bool { return out[i].sortKey() < out[j].sortKey() })
	return out
}

var errTransport = func(op Op, key string) error {
	return awserr.New(request.ErrCodeRequestError, fmt.Sprintf("send request failed (simulated) %s %s", op, key),
		fmt.Errorf("simulated transport failure"))
}

// Deliver serves one parked request with the given fault. Called only by the
// scheduler while every other goroutine is blocked.
func (s *Store) Deliver(r *Request, f Fault) *Event {
	s.mu.Lock()
	defer s.mu.Unlock()
	if r.settled {
		return nil
	}
	if r.H.Dead != nil && *r.H.Dead {
		f = FaultCrash
	}
	switch f {
	case FaultStall:
		r.stalled = true
		return nil
	case FaultCrash:
		if r.H.Dead != nil {
			*r.H.Dead = true
		}
		r.settled = true
		s.removeLocked(r)
		ev := s.logLocked(r, "crash", false, 0)
		r.ch <- reply{err: errTransport(r.Op, r.Key)}
		return ev
	case FaultErr:
		r.settled = true
		s.removeLocked(r)
		ev := s.logLocked(r, "error", false, 0)
		r.ch <- reply{err: errTransport(r.Op, r.Key)}
		return ev
	}
	r.settled = true
	s.removeLocked(r)
	var rep reply
	var ev *Event
	before, existed := s.Bucket[r.Key]
	switch r.Op {
	case OpStep:
		ev = s.logLocked(r, "ok", false, 0)
	case OpGet:
		if !existed {
			ev = s.logLocked(r, "nosuchkey", false, 0)
			rep.err = awserr.NewRequestFailure(awserr.New(s3.ErrCodeNoSuchKey, "The specified key does not exist.", nil), 404, "sim")
		} else {
			rep.body = append([]byte(nil), before...)
			ev = s.logLocked(r, "ok", false, 0)
		}
	case OpPut:
		s.Bucket[r.Key] = append([]byte(nil), r.Body...)
		s.Mut = append(s.Mut, Mutation{Client: r.H.Client, Seq: len(s.Log) + 1, Op: OpPut, Key: r.Key, Body: s.Bucket[r.Key]})
		ev = s.logLocked(r, "ok", true, 0)
	case OpDelete:
		delete(s.Bucket, r.Key)
		s.Mut = append(s.Mut, Mutation{Client: r.H.Client, Seq: len(s.Log) + 1, Op: OpDelete, Key: r.Key})
		ev = s.logLocked(r, "ok", true, 0)
	case OpList:
		keys := make([]string, 0)
		for k := range s.Bucket {
			if strings.HasPrefix(k, r.Key) && k > r.Token {
				keys = append(keys, k)
			}
		}
		sort.Strings(keys)
		if len(keys) > s.PageSize {
			keys = keys[:s.PageSize]
			rep.truncated = true
			rep.next = keys[len(keys)-1]
		}
		rep.keys = keys
		ev = s.logLocked(r, "ok", false, len(keys))
	}
	if f == FaultLostReply {
		ev.Outcome = "lost-response"
		rep = reply{err: errTransport(r.Op, r.Key)}
	}
	if f == FaultCorrupt && r.Op == OpGet && rep.err == nil && s.Corrupter != nil {
		ev.Outcome = "corrupt-read"
		rep.body = s.Corrupter(r.Key, rep.body)
	}
	if s.Observer != nil {
		s.Observer(ev, r, before, existed)
	}
	r.ch <- rep
	return ev
}

// ---- S3Interface ----

func (h *Handle) fullKey(bucket, key *string) string {
	return aws.StringValue(key)
}

func (h *Handle) GetObjectWithContext(ctx aws.Context, in *s3.GetObjectInput, _ ...request.Option) (*s3.GetObjectOutput, error) {
	rep := h.submit(ctx, &Request{Op: OpGet, Key: aws.StringValue(in.Key)})
	if rep.err != nil {
		return nil, rep.err
	}
	return &s3.GetObjectOutput{Body: io.NopCloser(bytes.NewReader(rep.body)), ContentLength: aws.Int64(int64(len(rep.body)))}, nil
}

func (h *Handle) PutObjectWithContext(ctx aws.Context, in *s3.PutObjectInput, _ ...request.Option) (*s3.PutObjectOutput, error) {
	body, err := io.ReadAll(in.Body)
	if err != nil {
		return nil, err
	}
	rep := h.submit(ctx, &Request{Op: OpPut, Key: aws.StringValue(in.Key), Body: body})
	if rep.err != nil {
		return nil, rep.err
	}
	return &s3.PutObjectOutput{}, nil
}

func (h *Handle) DeleteObjectWithContext(ctx aws.Context, in *s3.DeleteObjectInput, _ ...request.Option) (*s3.DeleteObjectOutput, error) {
	rep := h.submit(ctx, &Request{Op: OpDelete, Key: aws.StringValue(in.Key)})
	if rep.err != nil {
		return nil, rep.err
	}
	return &s3.DeleteObjectOutput{}, nil
}

func (h *Handle) ListObjectsV2WithContext(ctx aws.Context, in *s3.ListObjectsV2Input, _ ...request.Option) (*s3.ListObjectsV2Output, error) {
	rep := h.submit(ctx, &Request{Op: OpList, Key: aws.StringValue(in.Prefix), Token: aws.StringValue(in.ContinuationToken)})
	if rep.err != nil {
		return nil, rep.err
	}
	out := &s3.ListObjectsV2Output{IsTruncated: aws.Bool(rep.truncated)}
	for _, k := range rep.keys {
		out.Contents = append(out.Contents, &s3.Object{Key: aws.String(k)})
	}
	if rep.truncated {
		out.NextContinuationToken = aws.String(rep.next)
	}
	return out, nil
}

// ---- snapshots ----

func CopyBucket(b map[string][]byte) map[string][]byte {
	out := make(map[string][]byte, len(b))
	for k, v := range b {
		out[k] = v // bodies are never mutated in place
	}
	return out
}

// BucketAt rebuilds the bucket as it was after the first n mutations applied
// on top of base.
func BucketAt(base map[string][]byte, mut []Mutation, n int) map[string][]byte {
	b := CopyBucket(base)
	for _, m := range mut[:n] {
		if m.Op == OpPut {
			b[m.Key] = m.Body
		} else {
			delete(b, m.Key)
		}
	}
	return b
}

func SortedKeys(b map[string][]byte) []string {
	keys := make([]string, 0, len(b))
	for k := range b {
		keys = append(keys, k)
	}
	sort.Strings(keys)
	return keys
}

// LogHash is the determinism fingerprint of a run.
func LogHash(log []Event) string {
	h := sha256.New()
	for _, e := range log {
		fmt.Fprintf(h, "%d|%s|%d|%s|%s|%s|%s|%d|%d\n", e.Seq, e.Client, e.Handle, e.Op, e.Key, e.Hash, e.Outcome, e.SimNs, e.N)
	}
	return hex.EncodeToString(h.Sum(nil)[:8])
}

// MutBy returns the mutations applied by one client from index from on.
func (s *Store) MutBy(client string, from int) []Mutation {
	var out []Mutation
	for _, m := range s.Mut[from:] {
		if m.Client == client {
			out = append(out, m)
		}
	}
	return out
}
