package sim

// C15, second family: the per-connection attributes. write_time and deadline
// apply to exactly the statements issued while they are set, are readable
// back from s3db_conn, and clearing them restores the defaults. Two
// connections run side by side so that an attribute leaking from one
// connection to the other would show.

import (
	"fmt"
	"math/rand/v2"
	"strings"
	"time"
)

type ConnOp struct {
	C    int    `json:"c"`
	Op   string `json:"op"` // set-wt clear-wt clear-wt-empty set-dl-future set-dl-past clear-dl clear-dl-empty insert update delete select read-conn txn advance
	Secs int    `json:"secs,omitempty"`
	Key  int    `json:"key,omitempty"`
}

type ConnParams struct {
	EPN int      `json:"epn"`
	Ops []ConnOp `json:"ops"`
}

func init() {
	Register(&Family{Property: "C15", Name: "conn-attrs", Gen: func(r *rand.Rand, tier string) interface{} {
		p := &ConnParams{EPN: []int{2, 4, 0}[r.IntN(3)]}
		n := 10 + r.IntN(25)
		key := 0
		for i := 0; i < n; i++ {
			op := ConnOp{C: r.IntN(2), Secs: 1 + r.IntN(5000)}
			switch k := r.IntN(30); {
			case k < 4:
				op.Op = "set-wt"
			case k < 6:
				op.Op = []string{"clear-wt", "clear-wt-empty", "set-bad"}[r.IntN(3)]
			case k < 8:
				op.Op = "set-dl-future"
			case k < 10:
				op.Op = "set-dl-past"
			case k < 12:
				op.Op = []string{"clear-dl", "clear-dl-empty"}[r.IntN(2)]
			case k < 18:
				key++
				op.Op, op.Key = "insert", key
			case k < 20:
				op.Op, op.Key = "update", 1+r.IntN(max(key, 1))
			case k < 21:
				op.Op, op.Key = "delete", 1+r.IntN(max(key, 1))
			case k < 22:
				op.Op = "select"
			case k < 23:
				op.Op = []string{"select", "scratch-table"}[r.IntN(2)]
			case k < 26:
				op.Op = "read-conn"
			case k < 27:
				key += 2
				op.Op, op.Key = "txn", key-1
			case k < 28:
				key += 2
				op.Op, op.Key = []string{"txn-set-wt", "txn-set-dl"}[r.IntN(2)], key-1
			default:
				op.Op = "advance"
			}
			p.Ops = append(p.Ops, op)
		}
		return p
	}, Run: runC15Conn})
}

func runC15Conn(x *Exec) {
	var p ConnParams
	if !x.Params(&p) || p.EPN == 1 || p.EPN < 0 || len(p.Ops) > 80 {
		x.Invalid()
		return
	}
	for _, op := range p.Ops {
		if op.C < 0 || op.C > 1 || op.Secs < 0 || op.Secs > 100000 || op.Key < 0 {
			x.Invalid()
			return
		}
	}
	x.Bubble(func(w *World) {
		cs := []*Client{w.NewClient("c0"), w.NewClient("c1")}
		lays := []Layout{TableLayout("q0"), TableLayout("q1")}
		var ts [2]string
		type attrs struct {
			wt, dl time.Time // zero = unset
		}
		var st [2]attrs
		// expected write time per key per connection (ns); keys are unique per statement kind
		expectMod := [2]map[int]int64{{}, {}}
		live := [2]map[int]bool{{}, {}}
		var fatal error
		for i, c := range cs {
			i, c := i, c
			w.Solo(c, func() {
				ts[i] = w.TableName(c.Name)
				_, fatal = c.Exec(c.CreateSQL(ts[i], TableOpts{Prefix: fmt.Sprintf("q%d", i), Columns: "k primary key, a", EPN: p.EPN}))
			})
			if fatal != nil {
				x.Fail("C15-unexpected-error", "create: %v", fatal)
				return
			}
		}
		base := T0.Add(24 * time.Hour)                                                                // explicit write times and deadlines live a day after the fake clock's start
		fmtSec := func(t time.Time) string { return t.UTC().Format("2006-01-02 15:04:05.999999999") } // fraction only when there is one
		for oi, op := range p.Ops {
			if x.Failed() || w.Viol != nil {
				return
			}
			c, i := cs[op.C], op.C
			desc := fmt.Sprintf("op %d %s on connection %d", oi, op.Op, i)
			w.Solo(c, func() {
				c.Step("advance:1000000") // the default write time differs from statement to statement
				switch op.Op {
				case "advance":
					c.Step(fmt.Sprintf("advance:%d", int64(op.Secs)*int64(time.Millisecond)))
				case "set-wt":
					t := base.Add(time.Duration(op.Secs) * time.Second)
					if op.Secs%4 == 3 {
						// a write time between two whole seconds is accepted; what is accepted reads back
						t = t.Add(time.Duration(op.Secs%1000) * time.Millisecond).Add(250 * time.Microsecond)
						x.Probe("fractional-write-time-set")
					}
					if _, err := c.Exec("update s3db_conn set write_time=?", fmtSec(t)); err != nil {
						x.Fail("C15-unexpected-error", "%s: %v", desc, err)
						return
					}
					st[i].wt = t
				case "set-bad":
					// a value the table refuses: nothing changes, neither what s3db_conn shows nor what applies
					// (the later read-conn and write ops check both against what was set before)
					q := []string{"update s3db_conn set write_time='yesterday'", "update s3db_conn set deadline='soon'",
						"update s3db_conn set write_time='1600-01-01 00:00:00'", "update s3db_conn set write_time='2300-01-01 00:00:00'",
						"update s3db_conn set deadline='2030-01-01 00:00:00', write_time='12 o''clock'"}[op.Secs%5]
					if _, err := c.Exec(q); err == nil {
						x.Fail("C15-bad-value-accepted", "%s: %s reported success", desc, q)
						return
					}
					x.Probe("refused-attribute-value")
				case "clear-wt", "clear-wt-empty":
					var err error
					if op.Op == "clear-wt" {
						_, err = c.Exec("update s3db_conn set write_time=NULL")
					} else {
						_, err = c.Exec("update s3db_conn set write_time=''")
					}
					if err != nil {
						x.Fail("C15-unexpected-error", "%s: %v", desc, err)
						return
					}
					st[i].wt = time.Time{}
				case "set-dl-future", "set-dl-past":
					t := time.Now().Truncate(time.Second).Add(time.Duration(op.Secs+10) * time.Second)
					if op.Op == "set-dl-past" {
						t = time.Now().Truncate(time.Second).Add(-time.Duration(op.Secs+10) * time.Second)
					}
					if _, err := c.Exec("update s3db_conn set deadline=?", fmtSec(t)); err != nil {
						x.Fail("C15-unexpected-error", "%s: %v", desc, err)
						return
					}
					st[i].dl = t
				case "clear-dl", "clear-dl-empty":
					var err error
					if op.Op == "clear-dl" {
						_, err = c.Exec("update s3db_conn set deadline=NULL")
					} else {
						_, err = c.Exec("update s3db_conn set deadline=''")
					}
					if err != nil {
						x.Fail("C15-unexpected-error", "%s: %v", desc, err)
						return
					}
					st[i].dl = time.Time{}
				case "txn-set-wt":
					// write_time set in the middle of a transaction applies to the statements issued after it and stays set after COMMIT
					if !st[i].dl.IsZero() && st[i].dl.Before(time.Now()) {
						return
					}
					now := time.Now()
					firstWT := now.UnixNano()
					if !st[i].wt.IsZero() {
						firstWT = st[i].wt.UnixNano()
					}
					t := base.Add(time.Duration(op.Secs+7000) * time.Second)
					var err error
					if _, err = c.Exec("BEGIN"); err == nil {
						if _, err = c.Exec(fmt.Sprintf("insert into %s values (?,?)", ts[i]), op.Key, oi); err == nil {
							if _, err = c.Exec("update s3db_conn set write_time=?", fmtSec(t)); err == nil {
								if _, err = c.Exec(fmt.Sprintf("insert into %s values (?,?)", ts[i]), op.Key+1, oi); err == nil {
									_, err = c.Exec("COMMIT")
								}
							}
						}
						if err != nil {
							c.Exec("ROLLBACK")
						}
					}
					if err != nil {
						x.Fail("C15-unexpected-error", "%s: %v", desc, err)
						return
					}
					st[i].wt = t
					expectMod[i][op.Key], expectMod[i][op.Key+1] = firstWT, t.UnixNano()
					live[i][op.Key], live[i][op.Key+1] = true, true
					rows, rerr := c.Query("select write_time from s3db_conn")
					x.Check()
					if rerr != nil || len(rows) != 1 || rows[0][0] != fmt.Sprintf("t:%q", fmtSec(t)) {
						x.Fail("C15-conn-readback", "%s: write_time was set to %s inside the transaction; after COMMIT s3db_conn shows %s (%v)", desc, fmtSec(t), RowsString(rows), rerr)
						return
					}
					x.Probe("write-time-set-inside-transaction")
				case "txn-set-dl":
					// a deadline set in the middle of a transaction does not touch write_time: both statements carry the
					// transaction's write time, and after COMMIT write_time is what it was before BEGIN
					if !st[i].dl.IsZero() && st[i].dl.Before(time.Now()) {
						return
					}
					firstWT := time.Now().UnixNano()
					if !st[i].wt.IsZero() {
						firstWT = st[i].wt.UnixNano()
					}
					dl := base.Add(time.Duration(op.Secs) * time.Second)
					var err error
					if _, err = c.Exec("BEGIN"); err == nil {
						if _, err = c.Exec(fmt.Sprintf("insert into %s values (?,?)", ts[i]), op.Key, oi); err == nil {
							if _, err = c.Exec("update s3db_conn set deadline=?", fmtSec(dl)); err == nil {
								if _, err = c.Exec(fmt.Sprintf("insert into %s values (?,?)", ts[i]), op.Key+1, oi); err == nil {
									_, err = c.Exec("COMMIT")
								}
							}
						}
						if err != nil {
							c.Exec("ROLLBACK")
						}
					}
					if err != nil {
						x.Fail("C15-unexpected-error", "%s: %v", desc, err)
						return
					}
					st[i].dl = dl
					expectMod[i][op.Key], expectMod[i][op.Key+1] = firstWT, firstWT
					live[i][op.Key], live[i][op.Key+1] = true, true
					want := "null"
					if !st[i].wt.IsZero() {
						want = fmt.Sprintf("t:%q", fmtSec(st[i].wt))
					}
					rows, rerr := c.Query("select write_time from s3db_conn")
					x.Check()
					if rerr != nil || len(rows) != 1 || rows[0][0] != want {
						x.Fail("C15-conn-readback", "%s: only the deadline was set inside the transaction; after COMMIT s3db_conn shows write_time %s (%v), before BEGIN it was %s", desc, RowsString(rows), rerr, want)
						return
					}
					x.Probe("deadline-set-inside-transaction")
				case "scratch-table":
					// a second table on the same connection comes and goes; the connection's attributes and its other
					// table are not its business
					if !st[i].dl.IsZero() && st[i].dl.Before(time.Now()) {
						return
					}
					sn := w.TableName(c.Name + "scr")
					if _, err := c.Exec(c.CreateSQL(sn, TableOpts{Prefix: fmt.Sprintf("scr%d", i), Columns: "k primary key, a", EPN: p.EPN})); err != nil {
						x.Fail("C15-unexpected-error", "%s: create: %v", desc, err)
						return
					}
					if _, err := c.Exec("drop table " + sn); err != nil {
						x.Fail("C15-unexpected-error", "%s: drop: %v", desc, err)
						return
					}
					if _, err := c.Query("select * from " + ts[i] + " where k >= 0"); err != nil {
						x.Fail("C15-deadline-leaked", "%s: after another table of this connection was dropped a SELECT fails although the deadline (%v) is not in the past: %v", desc, st[i].dl, err)
						return
					}
					x.ProbeN("table-dropped-under-future-deadline", b2i(!st[i].dl.IsZero()))
				case "read-conn":
					rows, err := c.Query("select deadline, write_time from s3db_conn")
					x.Check()
					if err != nil || len(rows) != 1 {
						x.Fail("C15-conn-readback", "%s: %v %s", desc, err, RowsString(rows))
						return
					}
					want := []string{"null", "null"}
					if !st[i].dl.IsZero() {
						want[0] = fmt.Sprintf("t:%q", fmtSec(st[i].dl))
					}
					if !st[i].wt.IsZero() {
						want[1] = fmt.Sprintf("t:%q", fmtSec(st[i].wt))
					}
					if rows[0][0] != want[0] || rows[0][1] != want[1] {
						x.Fail("C15-conn-readback", "%s: s3db_conn shows (deadline, write_time) = %v, what was set on this connection is %v", desc, rows[0], want)
						return
					}
					x.Probe("conn-read-back")
				case "insert", "update", "delete", "select", "txn":
					past := !st[i].dl.IsZero() && st[i].dl.Before(time.Now())
					now := time.Now()
					var err error
					var n int64
					keys := []int{op.Key}
					switch op.Op {
					case "insert":
						n, err = c.Exec(fmt.Sprintf("insert into %s values (?,?)", ts[i]), op.Key, oi)
					case "update":
						n, err = c.Exec(fmt.Sprintf("update %s set a=? where k=?", ts[i]), oi, op.Key)
					case "delete":
						n, err = c.Exec(fmt.Sprintf("delete from %s where k=?", ts[i]), op.Key)
					case "select":
						_, err = c.Query("select * from " + ts[i] + " where k >= 0")
						n = 0
					case "txn":
						keys = []int{op.Key, op.Key + 1}
						if _, err = c.Exec("BEGIN"); err == nil {
							if _, err = c.Exec(fmt.Sprintf("insert into %s values (?,?)", ts[i]), op.Key, oi); err == nil {
								c.Step("advance:5000000")
								_, err = c.Exec(fmt.Sprintf("insert into %s values (?,?)", ts[i]), op.Key+1, oi)
							}
							if err == nil {
								_, err = c.Exec("COMMIT")
								n = 2
							}
							if err != nil {
								c.Exec("ROLLBACK")
							}
						}
					}
					x.Check()
					// an empty table answers UPDATE/DELETE/SELECT without touching the store; everything else needs it
					needsStore := op.Op == "insert" || op.Op == "txn" || len(expectMod[i]) > 0
					if past && err == nil && needsStore {
						x.Fail("C15-deadline-not-applied", "%s: the connection's deadline %s is in the past (now %s) but the statement succeeded", desc, fmtSec(st[i].dl), fmtSec(now))
						return
					}
					if !past && err != nil && !isConstraint(err) {
						x.Fail("C15-deadline-leaked", "%s: no deadline in the past is set on THIS connection (deadline=%v) but the statement failed: %v", desc, st[i].dl, err)
						return
					}
					if err != nil || n == 0 {
						return
					}
					wt := now.UnixNano()
					if !st[i].wt.IsZero() {
						wt = st[i].wt.UnixNano()
					}
					for _, k := range keys {
						// the stored entry time never moves backwards: an older statement keeps the entry's time
						if old, ok := expectMod[i][k]; ok && old > wt {
							continue
						}
						expectMod[i][k] = wt
						live[i][k] = true
					}
					// attribution through the stored entries
					cur, _ := lays[i].Versions(w.S.Bucket)
					if len(cur) != 1 {
						return
					}
					wtree, werr := lays[i].WalkVersion(w.S.Bucket, cur[0])
					if werr != nil || !wtree.OK() {
						x.Fail("C15-unexpected-error", "%s: stored version unreadable: %v %s", desc, werr, wtree.Err())
						return
					}
					for _, e := range wtree.Entries {
						if e.Key.T != 1 {
							continue
						}
						want, ok := expectMod[i][int(e.Key.I)]
						x.Check()
						if ok && e.Mod != want {
							x.Fail("C15-write-time-attribution", "%s: entry %d carries write time %s; the statements that wrote it ran with write_time %s (explicit=%v on this connection)", desc, e.Key.I,
								time.Unix(0, e.Mod).UTC().Format(wtLayout), time.Unix(0, want).UTC().Format(wtLayout), !st[i].wt.IsZero())
							return
						}
					}
					x.Probe("write-time-attributed")
					if st[i].wt.IsZero() {
						x.Probe("default-clock-write")
					} else {
						x.Probe("explicit-write-time-write")
					}
				}
			})
			w.CheckPanics()
		}
		x.Sig(LogHash(w.S.Log))
		x.Nontrivial()
		_ = strings.Join
	})
}
