package sim

// Delta-debugging shrinker over the JSON of a failing program. A candidate is
// kept when it still produces a violation of the same class.

import (
	"bytes"
	"encoding/json"
	"sort"
	"testing"
	"time"
)

type shrinker struct {
	t        *testing.T
	class    string
	deadline time.Time
	execs    int
	best     *Program
}

func (s *shrinker) try(p *Program) bool {
	if time.Now().After(s.deadline) {
		return false
	}
	s.execs++
	q := *p
	q.Expect = nil
	res := Execute(s.t, &q)
	if res.Violation != nil && res.Violation.Class == s.class {
		cp := *p
		cp.Expect = res.Violation
		cp.LogHash = res.LogHash
		s.best = &cp
		return true
	}
	return false
}

func decodeTree(b []byte) interface{} {
	d := json.NewDecoder(bytes.NewReader(b))
	d.UseNumber()
	var v interface{}
	if err := d.Decode(&v); err != nil {
		return nil
	}
	return v
}

func deepCopy(v interface{}) interface{} {
	switch x := v.(type) {
	case map[string]interface{}:
		m := make(map[string]interface{}, len(x))
		for k, e := range x {
			m[k] = deepCopy(e)
		}
		return m
	case []interface{}:
		a := make([]interface{}, len(x))
		for i, e := range x {
			a[i] = deepCopy(e)
		}
		return a
	}
	return v
}

type path []interface{}

func collect(v interface{}, p path, arrays, nums, maps *[]path) {
	switch x := v.(type) {
	case map[string]interface{}:
		*maps = append(*maps, append(path(nil), p...))
		keys := make([]string, 0, len(x))
		for k := range x {
			keys = append(keys, k)
		}
		sort.Strings(keys)
		for _, k := range keys {
			collect(x[k], append(p, k), arrays, nums, maps)
		}
	case []interface{}:
		*arrays = append(*arrays, append(path(nil), p...))
		for i, e := range x {
			collect(e, append(p, i), arrays, nums, maps)
		}
	case json.Number:
		*nums = append(*nums, append(path(nil), p...))
	}
}

func getAt(v interface{}, p path) interface{} {
	for _, s := range p {
		switch k := s.(type) {
		case string:
			m, ok := v.(map[string]interface{})
			if !ok {
				return nil
			}
			v = m[k]
		case int:
			a, ok := v.([]interface{})
			if !ok || k >= len(a) {
				return nil
			}
			v = a[k]
		}
	}
	return v
}

// setAt returns a copy of root with the value at p replaced (del: removed from its map).
func setAt(root interface{}, p path, nv interface{}, del bool) interface{} {
	if len(p) == 0 {
		return nv
	}
	switch k := p[0].(type) {
	case string:
		m, _ := root.(map[string]interface{})
		c := make(map[string]interface{}, len(m))
		for kk, e := range m {
			c[kk] = e
		}
		if len(p) == 1 && del {
			delete(c, k)
		} else {
			c[k] = setAt(m[k], p[1:], nv, del)
		}
		return c
	case int:
		a, _ := root.([]interface{})
		c := append([]interface{}(nil), a...)
		if k < len(c) {
			c[k] = setAt(a[k], p[1:], nv, del)
		}
		return c
	}
	return root
}

func (s *shrinker) withParams(tree interface{}) *Program {
	b, _ := json.Marshal(tree)
	q := *s.best
	q.Params = b
	return &q
}

// Shrink minimises p within the time budget; returns the smallest failing
// program found (p itself if nothing smaller fails) and the executions used.
func Shrink(t *testing.T, p *Program, budget time.Duration) (*Program, int) {
	s := &shrinker{t: t, deadline: time.Now().Add(budget)}
	if p.Expect != nil {
		s.class = p.Expect.Class
	}
	s.best = p
	// establish the class from a real execution
	res := Execute(t, p)
	s.execs++
	if res.Violation == nil {
		return p, s.execs
	}
	if s.class == "" {
		s.class = res.Violation.Class
	}
	cp := *p
	cp.Expect = res.Violation
	s.best = &cp

	// schedule first: bland decisions
	q := *s.best
	q.NoRng = true
	q.Choices = nil
	if !s.try(&q) {
		q = *s.best
		q.NoRng = true
		if !s.try(&q) {
			// keep recorded choices and rng fallback
		}
	}
	for pass := 0; pass < 6 && time.Now().Before(s.deadline); pass++ {
		progress := false
		tree := decodeTree(s.best.Params)
		if tree == nil {
			break
		}
		var arrays, nums, maps []path
		collect(tree, nil, &arrays, &nums, &maps)
		// arrays: remove chunks, largest arrays first
		sort.SliceStable(arrays, func(i, j int) bool { return len(arrays[i]) < len(arrays[j]) })
		for _, ap := range arrays {
			cur := decodeTree(s.best.Params)
			a, ok := getAt(cur, ap).([]interface{})
			if !ok {
				continue
			}
			for size := len(a); size >= 1; size /= 2 {
				for start := len(a) - size; start >= 0; {
					cur = decodeTree(s.best.Params)
					a, ok = getAt(cur, ap).([]interface{})
					if !ok || start+size > len(a) {
						start -= size
						continue
					}
					na := append(append([]interface{}(nil), a[:start]...), a[start+size:]...)
					if s.try(s.withParams(setAt(cur, ap, na, false))) {
						progress = true
					}
					start -= size
					if time.Now().After(s.deadline) {
						break
					}
				}
				if size == 1 {
					break
				}
			}
		}
		// map entries: delete (resets knobs, drops assigned columns)
		tree = decodeTree(s.best.Params)
		arrays, nums, maps = nil, nil, nil
		collect(tree, nil, &arrays, &nums, &maps)
		for _, mp := range maps {
			cur := decodeTree(s.best.Params)
			m, ok := getAt(cur, mp).(map[string]interface{})
			if !ok {
				continue
			}
			keys := make([]string, 0, len(m))
			for k := range m {
				keys = append(keys, k)
			}
			sort.Strings(keys)
			for _, k := range keys {
				cur = decodeTree(s.best.Params)
				if s.try(s.withParams(setAt(cur, append(append(path(nil), mp...), k), nil, true))) {
					progress = true
				}
			}
		}
		// numbers: towards zero
		tree = decodeTree(s.best.Params)
		arrays, nums, maps = nil, nil, nil
		collect(tree, nil, &arrays, &nums, &maps)
		for _, np := range nums {
			cur := decodeTree(s.best.Params)
			n, ok := getAt(cur, np).(json.Number)
			if !ok {
				continue
			}
			iv, err := n.Int64()
			if err != nil || iv == 0 {
				continue
			}
			for _, cand := range []int64{0, 1, iv / 2} {
				if cand == iv || (cand == 1 && iv < 0) {
					continue
				}
				cur = decodeTree(s.best.Params)
				if s.try(s.withParams(setAt(cur, np, json.Number(itoa(cand)), false))) {
					progress = true
					break
				}
			}
		}
		// choices: truncate, then zero
		if len(s.best.Choices) > 0 {
			for n := len(s.best.Choices) / 2; n >= 0; n /= 2 {
				q := *s.best
				q.Choices = append([]int(nil), s.best.Choices[:n]...)
				q.NoRng = true
				if s.try(&q) {
					progress = true
				}
				if n == 0 {
					break
				}
			}
		}
		if !progress {
			break
		}
	}
	return s.best, s.execs
}

func itoa(v int64) string {
	b, _ := json.Marshal(v)
	return string(b)
}
