package sim

// C01 (convergence) and C02 (documented conflict resolution), C15 (write_time
// idempotence / no reordering): multi-writer histories over the shared driver.

import (
	"fmt"
	"math/rand/v2"
	"sort"
	"strings"
)

func init() {
	Register(&Family{Property: "C01", Name: "mw-converge", Gen: func(r *rand.Rand, tier string) interface{} {
		return GenMW(r, MWGenOpts{MaxClients: 4, MaxStmts: 12, MaxKeys: 3, MaxCols: 3, Retries: true, Decreasing: false, Txns: true})
	}, Run: func(x *Exec) { runCRDT(x, "C01") }})
	Register(&Family{Property: "C02", Name: "mw-model", Gen: func(r *rand.Rand, tier string) interface{} {
		return GenMW(r, MWGenOpts{MaxClients: 3, MaxStmts: 10, MaxKeys: 2, MaxCols: 3, Retries: false, Decreasing: true, Txns: true})
	}, Run: func(x *Exec) { runCRDT(x, "C02") }})
	Register(&Family{Property: "C15", Name: "mw-retry", Gen: func(r *rand.Rand, tier string) interface{} {
		return GenMW(r, MWGenOpts{MaxClients: 3, MaxStmts: 10, MaxKeys: 2, MaxCols: 2, Retries: true, Decreasing: true, Txns: false})
	}, Run: func(x *Exec) { runCRDT(x, "C15") }})
}

type crdtOutcome struct {
	accepted string
	final    [][]string
	ok       bool
}

func runCRDT(x *Exec, prop string) {
	var p MWParams
	if !x.Params(&p) || !p.Valid() {
		x.Invalid()
		return
	}
	out := runCRDTOnce(x, prop, &p, true)
	if x.Failed() || !out.ok {
		return
	}
	if prop == "C01" && p.Inter > 0 {
		// Twin: same statements without the intermediate openers and with the
		// canonical merge order. Same accepted statements => same final rows.
		q := p
		q.Inter = 0
		q.Perm = false
		twin := runCRDTOnce(x, prop, &q, false)
		if x.Failed() || !twin.ok {
			return
		}
		if twin.accepted == out.accepted {
			x.Check()
			x.Probe("twin-compared")
			if RowsString(twin.final) != RowsString(out.final) {
				x.Fail("C01-grouping", "same accepted statements, different final rows with/without intermediate mergers: %s vs %s",
					RowsString(out.final), RowsString(twin.final))
			}
		}
	}
}

func runCRDTOnce(x *Exec, prop string, p *MWParams, primary bool) (out crdtOutcome) {
	x.Bubble(func(w *World) {
		w.Policy = p.Policy
		w.PermuteMerge = p.Perm
		for _, f := range p.Faults {
			cp := *f
			w.Faults = append(w.Faults, &cp)
		}
		m := NewMWRun(x, w, p)
		var writers []*Client
		for i := range p.Scripts {
			c := w.NewClient(fmt.Sprintf("c%d", i))
			writers = append(writers, c)
			var err error
			w.Solo(c, func() { err = m.OpenTable(c, false) })
			if err != nil {
				x.Fail(prop+"-open", "writer %s cannot open: %v", c.Name, err)
				return
			}
		}
		var inter []*Client
		for i := 0; i < p.Inter; i++ {
			inter = append(inter, w.NewClient(fmt.Sprintf("m%d", i)))
		}
		// concurrent phase
		for i, c := range writers {
			c, script := c, p.Scripts[i]
			w.Go(c, func() { m.RunScript(c, script) })
		}
		for _, c := range inter {
			c := c
			w.Go(c, func() {
				c.Step("inter-open")
				if err := m.OpenTable(c, false); err != nil {
					m.Errs = append(m.Errs, fmt.Sprintf("%s: open: %v", c.Name, err))
					return
				}
				m.View(c, "inter", nil)
				c.Step("inter-reopen")
				if _, err := c.Query("select s3db_refresh(?)", m.Tables[c.Name]); err != nil {
					m.Errs = append(m.Errs, fmt.Sprintf("%s: refresh: %v", c.Name, err))
					return
				}
				m.View(c, "inter2", nil)
			})
		}
		w.Run()
		w.CheckPanics()
		if w.Viol != nil {
			return
		}
		if len(m.Errs) > 0 {
			// fault-free configuration: no statement may fail for a storage reason
			x.Fail(prop+"-unexpected-error", "%s", strings.Join(m.Errs, "; "))
			return
		}
		if primary {
			x.Sig(len(w.S.Log), LogHash(w.S.Log))
		}
		// all committed statements
		all := map[int]bool{}
		for _, ids := range m.Own {
			for _, id := range ids {
				all[id] = true
			}
		}
		out.accepted = setKey(all)
		nver := len(m.VerObj)
		if len(all) >= 2 && len(p.Scripts) >= 2 {
			x.Nontrivial()
		}
		// frozen bucket: readers
		var finals [][][]string
		for i := 0; i < p.Readers; i++ {
			c := w.NewClient(fmt.Sprintf("r%d", i))
			w.PermuteMerge = true
			var err error
			w.Solo(c, func() {
				err = m.OpenTable(c, true)
				if err == nil {
					m.View(c, "reader", nil)
				}
			})
			if err != nil {
				x.Fail(prop+"-open", "reader cannot open: %v", err)
				return
			}
			if len(m.Errs) > 0 {
				x.Fail(prop+"-unexpected-error", "%s", strings.Join(m.Errs, "; "))
				return
			}
			v := m.Views[len(m.Views)-1]
			finals = append(finals, v.Rows)
			x.ProbeN("reader-merged-3+", b2i(len(v.Versions) >= 3))
			x.ProbeN("reader-merged-2+", b2i(len(v.Versions) >= 2))
		}
		out.final = finals[0]
		// --- oracles over views ---
		bySet := map[string]*MWView{}
		for i := range m.Views {
			v := &m.Views[i]
			ids := m.StmtSet(v.Versions)
			for _, id := range v.Pending {
				ids[id] = true
			}
			sk := setKey(ids)
			got := RowsByKey(v.Rows, 0)
			if prop == "C01" {
				if len(v.Pending) > 0 {
					continue
				}
				x.Check()
				if prev, ok := bySet[sk]; ok {
					if d := DiffRowMaps(got, RowsByKey(prev.Rows, 0)); d != "" {
						x.Fail("C01-diverge", "two views merged the same statements %s but differ (%s %s vs %s %s): %s",
							sk, v.Client, v.Label, prev.Client, prev.Label, d)
						return
					}
				} else {
					bySet[sk] = v
				}
			} else {
				x.Check()
				want := m.Model(ids)
				if d := DiffRowMaps(got, want); d != "" {
					x.Fail(prop+"-model", "view %s/%s (statements %s) differs from the documented resolution: %s\nstatements: %s",
						v.Client, v.Label, sk, d, m.describe(ids))
					return
				}
			}
		}
		if prop != "C01" {
			// final readers must contain every committed statement
			for i := len(m.Views) - p.Readers; i < len(m.Views); i++ {
				if i < 0 {
					continue
				}
				v := &m.Views[i]
				if sk := setKey(m.StmtSet(v.Versions)); sk != out.accepted {
					x.Fail(prop+"-lost", "reader %s merged statements %s but committed were %s", v.Client, sk, out.accepted)
					return
				}
			}
		}
		if prop == "C01" {
			// settle: read-write opens must converge to one version and then stop writing
			s := w.NewClient("settler")
			var prevRows string
			for round := 0; round < 4; round++ {
				before := len(w.S.Mut)
				var err error
				w.Solo(s, func() {
					m.DropTable(s)
					err = m.OpenTable(s, false)
					if err == nil {
						m.View(s, fmt.Sprintf("settle%d", round), nil)
					}
				})
				if err != nil || len(m.Errs) > 0 {
					x.Fail("C01-open", "settler: %v %v", err, m.Errs)
					return
				}
				rows := RowsString(m.Views[len(m.Views)-1].Rows)
				if RowsString(finals[0]) != rows {
					x.Fail("C01-settle-rows", "settler round %d sees %s, readers saw %s", round, rows, RowsString(finals[0]))
					return
				}
				prevRows = rows
				cur, _ := m.Lay.Versions(w.S.Bucket)
				if round >= 2 {
					x.Check()
					if len(w.S.Mut) != before {
						x.Fail("C01-not-quiescent", "re-opening a quiescent table for the %d. time still wrote %d object(s): %v",
							round+1, len(w.S.Mut)-before, mutKeys(w.S.Mut[before:]))
						return
					}
					if nver > 0 && len(cur) != 1 {
						x.Fail("C01-not-quiescent", "after %d read-write opens %d current versions remain: %v", round+1, len(cur), cur)
						return
					}
				}
			}
			_ = prevRows
		}
		out.ok = true
	})
	return
}

func (m *MWRun) describe(ids map[int]bool) string {
	var s []int
	for id := range ids {
		s = append(s, id)
	}
	sort.Ints(s)
	var parts []string
	for _, id := range s {
		parts = append(parts, m.Accepted[id].String())
	}
	return strings.Join(parts, " / ")
}

func mutKeys(ms []Mutation) []string {
	var out []string
	for _, m := range ms {
		out = append(out, string(m.Op)+" "+m.Key)
	}
	return out
}

func b2i(b bool) int {
	if b {
		return 1
	}
	return 0
}
