package sim

// C11 (a version name denotes an immutable snapshot) and C12 (s3db_changes
// reports exactly the rows that differ; fails rather than answering partially).

import (
	"context"
	"encoding/json"
	"fmt"
	"math/rand/v2"
	"sort"
	"strings"
	"time"

	"github.com/jrhy/s3db"
	v1proto "github.com/jrhy/s3db/proto/v1"
)

type VerParams struct {
	MW     MWParams `json:"mw"`
	Faults bool     `json:"faults"`           // C12: enumerate single storage faults during the diff
	Vacuum int64    `json:"vacuum,omitempty"` // C11: vacuum with this cutoff (ns after T0) before the re-reads; 0 = none
}

func genVer(r *rand.Rand, tier string) *VerParams {
	mw := GenMW(r, MWGenOpts{MaxClients: 3, MaxStmts: 9, MaxKeys: 5, MaxCols: 2, Txns: true, Advance: true, Noops: true, Skew: true})
	mw.EPN = []int{2, 2, 3, 4, 0}[r.IntN(5)]
	mw.Inter = 0
	mw.ViewAfterCommit = true
	return &VerParams{MW: *mw}
}

func init() {
	Register(&Family{Property: "C11", Name: "version-reread", Gen: func(r *rand.Rand, tier string) interface{} {
		return genVer(r, tier)
	}, Run: func(x *Exec) { runVersions(x, "C11") }})
	Register(&Family{Property: "C12", Name: "changes-pairs", Gen: func(r *rand.Rand, tier string) interface{} {
		p := genVer(r, tier)
		p.Faults = r.IntN(2) == 0
		return p
	}, Run: func(x *Exec) { runVersions(x, "C12") }})
}

// HistoricRows opens the table restricted to versions through the Go API
// (s3db.OpenKV with ReadOnly + OnlyVersions) and reads it with the kv cursor.
// Must run on a client goroutine.
func HistoricRows(c *Client, prefix string, versions []string, cols []string) ([][]string, error) {
	kvh, err := s3db.OpenKV(context.Background(), s3db.S3Options{Bucket: "simbucket", Endpoint: "sim://" + c.Name, Prefix: prefix,
		ReadOnly: true, OnlyVersions: append([]string{}, versions...)}, "s3db-rows")
	if err != nil {
		return nil, err
	}
	cur, err := kvh.Root.Cursor(context.Background())
	if err != nil {
		return nil, err
	}
	if err := cur.Min(context.Background()); err != nil {
		return nil, err
	}
	out := [][]string{}
	for {
		k, v, ok := cur.Get()
		if !ok {
			break
		}
		if !v.Tombstoned() {
			if row, _ := v.Value.(*v1proto.Row); row != nil && !row.Deleted {
				key := k.(*s3db.Key)
				r := make([]string, len(cols))
				r[0] = svFrom(key.SQLiteValue).Canon()
				for i := 1; i < len(cols); i++ {
					r[i] = "null"
					if cv, ok := row.ColumnValues[cols[i]]; ok {
						r[i] = svFrom(cv.Value).Canon()
					}
				}
				out = append(out, r)
			}
		}
		if err := cur.Forward(context.Background()); err != nil {
			return nil, err
		}
	}
	return out, nil
}

func versionsJSON(v []string) string {
	if v == nil {
		v = []string{}
	}
	b, _ := json.Marshal(v)
	return string(b)
}

func runVersions(x *Exec, prop string) {
	var p VerParams
	if !x.Params(&p) || !p.MW.Valid() {
		x.Invalid()
		return
	}
	x.Bubble(func(w *World) {
		mp := &p.MW
		mp.ViewAfterCommit = true
		w.Policy = mp.Policy
		m := NewMWRun(x, w, mp)
		var writers []*Client
		for i := range mp.Scripts {
			writers = append(writers, w.NewClient(fmt.Sprintf("c%d", i)))
		}
		rd := w.NewClient("rd")
		for _, c := range writers {
			var err error
			w.Solo(c, func() { err = m.OpenTable(c, false) })
			if err != nil {
				x.Fail(prop+"-unexpected-error", "open: %v", err)
				return
			}
		}
		for i, c := range writers {
			c, script := c, mp.Scripts[i]
			w.Go(c, func() { m.RunScript(c, script) })
		}
		if prop == "C11" {
			// a concurrent re-reader: while the writers go on it re-opens version
			// sets that were recorded earlier and compares with the recorded rows
			w.Go(rd, func() {
				for i := 0; i < 6; i++ {
					rd.Step("reread")
					if len(m.Views) == 0 {
						continue
					}
					v := m.Views[x.Choose(len(m.Views))]
					if len(v.Pending) > 0 || len(v.Versions) == 0 {
						continue
					}
					got, err := HistoricRows(rd, "p", v.Versions, mp.AllCols())
					x.Check()
					if err != nil {
						x.Fail("C11-reread-failed", "version %s (taken by %s/%s) cannot be opened while other writers commit: %v", versionsJSON(v.Versions), v.Client, v.Label, err)
						return
					}
					if RowsString(got) != RowsString(v.Rows) {
						x.Fail("C11-snapshot-changed", "version %s showed %s when taken (%s/%s) but a concurrent re-open gives %s", versionsJSON(v.Versions), RowsString(v.Rows), v.Client, v.Label, RowsString(got))
						return
					}
					x.Probe("concurrent-reread")
				}
			})
		}
		w.Run()
		w.CheckPanics()
		if w.Viol != nil {
			return
		}
		if len(m.Errs) > 0 {
			x.Fail(prop+"-unexpected-error", "%s", strings.Join(m.Errs, "; "))
			return
		}
		w.AdvanceClock(time.Second)
		// final read-only reader view (merges all unmerged versions) is one more recorded snapshot
		var rt string
		var oerr error
		rdOpenStart := len(w.S.Log)
		w.Solo(rd, func() {
			if oerr = m.OpenTable(rd, true); oerr == nil {
				rt = m.Tables[rd.Name]
				m.View(rd, "reader", nil)
			}
		})
		if oerr != nil || len(m.Errs) > 0 {
			x.Fail(prop+"-unexpected-error", "reader: %v %v", oerr, m.Errs)
			return
		}
		cols := mp.AllCols()
		// distinct recorded snapshots
		type snap struct {
			versions []string
			rows     [][]string
			label    string
		}
		var snaps []snap
		seen := map[string]int{}
		for _, v := range m.Views {
			if len(v.Pending) > 0 {
				continue
			}
			k := versionsJSON(v.Versions)
			if i, ok := seen[k]; ok {
				// the same version set read twice must have shown the same rows
				x.Check()
				if RowsString(snaps[i].rows) != RowsString(v.Rows) {
					x.Fail("C11-same-name-different-rows", "version %s showed %s (%s) and %s (%s %s)", k, RowsString(snaps[i].rows), snaps[i].label, RowsString(v.Rows), v.Client, v.Label)
					return
				}
				continue
			}
			seen[k] = len(snaps)
			snaps = append(snaps, snap{v.Versions, v.Rows, v.Client + "/" + v.Label})
		}
		if len(snaps) >= 3 {
			x.Nontrivial()
		}
		x.Sig(len(snaps), LogHash(w.S.Log))
		if prop == "C11" {
			// (b)/(c): per client, consecutive views
			last := map[string]*MWView{}
			for i := range m.Views {
				v := &m.Views[i]
				if len(v.Pending) > 0 {
					continue
				}
				if pv, ok := last[v.Client]; ok {
					x.Check()
					if RowsString(pv.Rows) != RowsString(v.Rows) && versionsJSON(pv.Versions) == versionsJSON(v.Versions) {
						x.Fail("C11-version-not-changed", "%s: rows changed from %s to %s but s3db_version stayed %s", v.Client, RowsString(pv.Rows), RowsString(v.Rows), versionsJSON(v.Versions))
						return
					}
				}
				last[v.Client] = v
			}
			if len(m.NoopWrote) > 0 {
				x.Fail("C11-noop-changed-version", "%s", strings.Join(m.NoopWrote, "; "))
				return
			}
			// (d): a read-only open lists exactly the versions it fetched
			rv := m.Views[len(m.Views)-1]
			fetched := map[string]bool{}
			rdOpenEnd := rv.At
			for _, e := range w.S.Log[rdOpenStart:rdOpenEnd] {
				if e.Client == "rd" && e.Op == OpGet && e.Outcome == "ok" && (strings.HasPrefix(e.Key, m.Lay.Current) || strings.HasPrefix(e.Key, m.Lay.Merged)) {
					fetched[strings.TrimPrefix(strings.TrimPrefix(e.Key, m.Lay.Current), m.Lay.Merged)] = true
				}
			}
			var fl []string
			for k := range fetched {
				fl = append(fl, k)
			}
			sort.Strings(fl)
			x.Check()
			if versionsJSON(fl) != versionsJSON(rv.Versions) {
				x.Fail("C11-version-list", "read-only open merged versions %v but s3db_version lists %v", fl, rv.Versions)
				return
			}
			x.ProbeN("reader-lists-2+-versions", b2i(len(rv.Versions) >= 2))
			// (a): re-read every recorded snapshot, later, from another process, by two routes
			for _, s := range snaps {
				if len(s.versions) == 0 {
					continue
				}
				x.Check()
				var got, got2 [][]string
				var err, err2 error
				w.Solo(rd, func() {
					got, err = HistoricRows(rd, "p", s.versions, cols)
					ct := w.TableName("chg")
					if _, err2 = rd.Exec(fmt.Sprintf(`create virtual table %s using s3db_changes(table=%s, from='[]', to='%s')`, ct, rt, versionsJSON(s.versions))); err2 == nil {
						got2, err2 = rd.Query("select * from " + ct)
						rd.Exec("drop table " + ct)
					}
				})
				if err != nil {
					x.Fail("C11-reread-failed", "version %s (taken at %s) can no longer be opened: %v", versionsJSON(s.versions), s.label, err)
					return
				}
				if RowsString(got) != RowsString(s.rows) {
					x.Fail("C11-snapshot-changed", "version %s showed %s when taken (%s) but re-opening it now gives %s", versionsJSON(s.versions), RowsString(s.rows), s.label, RowsString(got))
					return
				}
				if err2 != nil {
					x.Fail("C11-reread-failed", "version %s via s3db_changes(from='[]'): %v", versionsJSON(s.versions), err2)
					return
				}
				if RowsString(SortRowsByKey(got2)) != RowsString(s.rows) {
					x.Fail("C11-snapshot-changed", "version %s showed %s when taken but s3db_changes(from='[]') gives %s", versionsJSON(s.versions), RowsString(s.rows), RowsString(got2))
					return
				}
				x.Probe("snapshot-reread")
			}
			return
		}
		// ---- C12: ordered pairs ----
		all := append([]snap{{nil, [][]string{}, "empty"}}, snaps...)
		if len(all) > 7 {
			all = all[:7]
		}
		queryPair := func(a, b snap, rescan bool) ([][]string, error) {
			var rows [][]string
			var err error
			ct := w.TableName("chg")
			if _, err = rd.Exec(fmt.Sprintf(`create virtual table %s using s3db_changes(table=%s, from='%s', to='%s')`, ct, rt, versionsJSON(a.versions), versionsJSON(b.versions))); err != nil {
				return nil, err
			}
			rows, err = rd.Query("select * from " + ct)
			if err == nil && rescan {
				// the same table as the inner side of a join: SQLite scans it once per outer row with one cursor
				// (CROSS JOIN keeps the left table outside); every scan must give the full answer again
				var twice [][]string
				twice, err = rd.Query("select c.* from (select 1 union all select 2) x cross join " + ct + " c")
				if err == nil && RowsString(SortRowsByKey(twice)) != RowsString(SortRowsByKey(append(append([][]string{}, rows...), rows...))) {
					err = fmt.Errorf("RESCAN: scanned twice in one statement the table gives %s, scanned once %s", RowsString(twice), RowsString(rows))
				}
			}
			rd.Exec("drop table " + ct)
			return rows, err
		}
		for _, a := range all {
			for _, b := range all {
				if x.Failed() || w.Viol != nil {
					return
				}
				x.Check()
				var rows [][]string
				var err error
				before := len(w.S.Log)
				w.Budget = w.Stats.Steps + 5000
				w.Solo(rd, func() { rows, err = queryPair(a, b, false) })
				n := len(w.S.Log) - before
				desc := fmt.Sprintf("changes(from=%s, to=%s)", versionsJSON(a.versions), versionsJSON(b.versions))
				if err != nil {
					x.Fail("C12-query-failed", "%s fails without any fault: %v (from shows %s, to shows %s)", desc, err, RowsString(a.rows), RowsString(b.rows))
					return
				}
				w.Solo(rd, func() { _, err = queryPair(a, b, true) })
				if err != nil {
					x.Fail("C12-wrong-rows", "%s: %v", desc, err)
					return
				}
				x.Probe("changes-table-scanned-twice-in-one-statement")
				if d := checkChanges(rows, a.rows, b.rows); d != "" {
					x.Fail("C12-wrong-rows", "%s returned %s: %s (from shows %s, to shows %s)", desc, RowsString(rows), d, RowsString(a.rows), RowsString(b.rows))
					return
				}
				deleted := 0
				bm := RowsByKey(b.rows, 0)
				for _, r := range a.rows {
					if _, ok := bm[r[0]]; !ok {
						deleted++
					}
				}
				x.ProbeN("pair-with-row-deleted-between", b2i(deleted > 0))
				x.Probe("pairs-diffed")
				if !p.Faults || n == 0 {
					continue
				}
				cleanRows := RowsString(SortRowsByKey(rows))
				for i := 1; i <= n; i++ {
					for _, kind := range []Fault{FaultErr, FaultStall} {
						if x.Failed() || w.Viol != nil {
							return
						}
						x.Check()
						var frows [][]string
						var ferr error
						w.Faults = []*FaultSpec{{Client: "rd", Nth: i, Kind: kind}}
						w.Budget = w.Stats.Steps + 5000
						w.Solo(rd, func() {
							if kind == FaultStall {
								rd.Exec("update s3db_conn set deadline=?", FmtTime(time.Now().Add(2*time.Second)))
							}
							frows, ferr = queryPair(a, b, false)
							if kind == FaultStall {
								rd.Exec("update s3db_conn set deadline=NULL")
							}
						})
						w.Faults = nil
						w.CheckPanics()
						if w.Viol != nil {
							return
						}
						if ferr == nil {
							if got := RowsString(SortRowsByKey(frows)); got != cleanRows {
								x.Fail("C12-partial-answer", "%s with request %d/%d %s: query succeeded with %s, fault-free answer is %s", desc, i, n, kind, got, cleanRows)
								return
							}
							x.Probe("fault-absorbed")
						} else {
							x.Probe("fault-surfaced-as-error")
						}
					}
				}
			}
		}
	})
}

// checkChanges: result rows must be rows of B (whole rows) and include every
// row of B that is absent from A or differs from A.
func checkChanges(got, a, b [][]string) string {
	am, bm := RowsByKey(a, 0), RowsByKey(b, 0)
	gm := map[string][]string{}
	for _, r := range got {
		if _, dup := gm[r[0]]; dup {
			return fmt.Sprintf("key %s returned twice", r[0])
		}
		gm[r[0]] = r
		br, ok := bm[r[0]]
		if !ok {
			return fmt.Sprintf("returned row %v is not visible in 'to'", r)
		}
		if strings.Join(br, ",") != strings.Join(r, ",") {
			return fmt.Sprintf("returned row %v differs from the row visible in 'to' %v", r, br)
		}
	}
	for k, br := range bm {
		ar, ok := am[k]
		if !ok || strings.Join(ar, ",") != strings.Join(br, ",") {
			if _, ret := gm[k]; !ret {
				return fmt.Sprintf("row %v of 'to' differs from 'from' (%v) but was not returned", br, ar)
			}
		}
	}
	return ""
}

// SortRowsByKey orders canonical rows by their (integer) key.
func SortRowsByKey(rows [][]string) [][]string {
	out := append([][]string(nil), rows...)
	sort.SliceStable(out, func(i, j int) bool {
		var a, b int64
		fmt.Sscanf(out[i][0], "i:%d", &a)
		fmt.Sscanf(out[j][0], "i:%d", &b)
		return a < b
	})
	return out
}
