package mod_test

// Hunt for violations of property C06 ("a single-writer table behaves like
// the same table in plain SQLite"). Every test creates a native WITHOUT ROWID
// table and an s3db table with the same columns on one connection, runs the
// same statements against both and reports each statement whose outcome
// (ok / error) or result rows differ. See NOTES.md at the repository root.

import (
	"database/sql"
	"fmt"
	"sort"
	"strings"
	"testing"
)

type huntPair struct {
	t    *testing.T
	db   *sql.DB
	name string
}

var huntSeq int

// newHuntPair creates <name>_n (native, WITHOUT ROWID) and <name>_v (s3db)
// with the same column list. extra is spliced into the s3db arguments (e.g.
// "entries_per_node=2,").
func newHuntPair(t *testing.T, cols string, extra string) *huntPair {
	db, s3Bucket, s3Endpoint := openDB()
	db.SetMaxOpenConns(1)
	t.Cleanup(func() { db.Close() })
	huntSeq++
	name := fmt.Sprintf("hunt%d", huntSeq)
	_, err := db.Exec(fmt.Sprintf(`create table %s_n(%s) without rowid`, name, cols))
	if err != nil {
		t.Fatalf("create native: %v", err)
	}
	_, err = db.Exec(fmt.Sprintf(`create virtual table %s_v using s3db (
s3_bucket='%s',
s3_endpoint='%s',
s3_prefix='%s',
%s
columns='%s')`, name, s3Bucket, s3Endpoint, name, extra, cols))
	if err != nil {
		t.Fatalf("create virtual: %v", err)
	}
	return &huntPair{t: t, db: db, name: name}
}

// outcome runs q (in which the word TBL stands for the table name) against the
// native and the s3db table and describes what happened to each.
func (p *huntPair) outcome(q string) (string, string) {
	run := func(suffix string) string {
		qq := strings.ReplaceAll(q, "TBL", p.name+suffix)
		if !strings.HasPrefix(strings.ToUpper(strings.TrimSpace(qq)), "SELECT") {
			if _, err := p.db.Exec(qq); err != nil {
				if strings.Contains(err.Error(), "constraint failed") {
					// the message names the native table and constraint
					// kind; only the fact of a constraint failure is compared
					return "ERR: constraint failed"
				}
				return "ERR: " + err.Error()
			}
			return "ok"
		}
		rows, err := p.db.Query(qq)
		if err != nil {
			return "ERR: " + err.Error()
		}
		defer rows.Close()
		cols, _ := rows.Columns()
		var res []string
		for rows.Next() {
			row := make([]interface{}, len(cols))
			ptrs := make([]interface{}, len(cols))
			for i := range row {
				ptrs[i] = &row[i]
			}
			if err := rows.Scan(ptrs...); err != nil {
				return "SCAN ERR: " + err.Error()
			}
			res = append(res, fmt.Sprintf("%#v", row))
		}
		if err := rows.Err(); err != nil {
			return "ROWS ERR: " + err.Error()
		}
		if !strings.Contains(strings.ToLower(qq), "order by") {
			// no order promised: compare as a multiset
			sort.Strings(res)
		}
		return fmt.Sprintf("%d row(s): %s", len(res), strings.Join(res, " "))
	}
	return run("_n"), run("_v")
}

func (p *huntPair) same(q string) bool {
	p.t.Helper()
	n, v := p.outcome(q)
	if n != v {
		p.t.Errorf("DIFFERENT for %q:\n native: %s\n s3db:   %s", q, n, v)
		return false
	}
	p.t.Logf("same for %q: %s", q, n)
	return true
}

// Defect 1: any SELECT whose ORDER BY, GROUP BY or DISTINCT list has more
// than one term (all being columns of the table) fails with "order specified
// multiple times", from BestIndex (vtable_common.go:285).
func TestHuntC06_MultiTermOrderBy(t *testing.T) {
	p := newHuntPair(t, "k primary key, b, c", "")
	p.same(`insert into TBL values (1,'x','p'),(2,'x','p'),(3,'y','q')`)
	p.same(`select k, b from TBL order by k`)
	p.same(`select k, b from TBL order by k, b`)
	p.same(`select k, b from TBL order by b, k`)
	p.same(`select k, b from TBL order by b desc, k desc`)
	p.same(`select k, b from TBL where k > 1 order by c, b limit 1`)
	p.same(`select b, c, count(*) from TBL group by b, c`)
	p.same(`select distinct b, c from TBL`)
	p.same(`select k, count(*) over (order by b, k) from TBL order by k`)
}

// Defect 2: a key comparison that SQLite evaluates under a collation other
// than BINARY is pushed down as if it were a binary comparison: the [min,max]
// window built by Filter excludes rows that satisfy the comparison.
func TestHuntC06_CollateKeyComparison(t *testing.T) {
	p := newHuntPair(t, "k primary key, b", "")
	p.same(`insert into TBL values ('ab','lower'),('CD','upper'),('ef  ','trailing blanks'),(1,'int one')`)
	p.same(`select k from TBL where k = 'AB' collate nocase`)
	p.same(`select k from TBL where k collate nocase = 'cd'`)
	p.same(`select k from TBL where k in ('AB' collate nocase)`)
	p.same(`select k from TBL where k < 'B' collate nocase order by k`)
	p.same(`select k from TBL where k = 'ef' collate rtrim`)
	p.same(`select count(*) from TBL where k >= 'C' collate nocase`)
}

// Defect 3: same mechanism with comparison affinity. SQLite applies NUMERIC
// affinity to an untyped column that is compared with an operand of INTEGER
// (or REAL/NUMERIC) affinity: a CAST, or a typed column of another table in a
// join. The TEXT key '5' then equals 5, but the window [5,5] over the stored
// key order (numbers < text) does not contain it.
func TestHuntC06_AffinityKeyComparison(t *testing.T) {
	p := newHuntPair(t, "k primary key, b", "")
	p.same(`insert into TBL values ('5','text five'),(7,'int seven'),('abc','text abc'),(1,'int one')`)
	p.same(`select k, typeof(k) from TBL where k = cast(5 as integer)`)
	p.same(`select k, typeof(k) from TBL where k < cast(10 as integer) order by k`)
	p.same(`select k, typeof(k) from TBL where k between cast(0 as integer) and cast(6 as integer) order by k`)
	if _, err := p.db.Exec(`create table hunt_nums(i integer); insert into hunt_nums values (5),(7)`); err != nil {
		t.Fatal(err)
	}
	p.same(`select n.i, t.k, typeof(t.k) from hunt_nums n join TBL t on t.k = n.i order by n.i`)
	p.same(`select n.i, count(t.k) from hunt_nums n left join TBL t on t.k <= n.i group by n.i order by n.i`)
}

// Defect 4: TEXT that is not valid UTF-8 (SQLite stores any bytes as TEXT)
// cannot be committed, as key or as value: nodes are protobuf messages with
// `string Text` fields, and marshalling refuses the bytes. In a transaction
// the offending INSERT succeeds and COMMIT fails, losing the other rows too.
func TestHuntC06_InvalidUTF8Text(t *testing.T) {
	p := newHuntPair(t, "k primary key, b", "")
	p.same(`insert into TBL values (1, 'fine')`)
	p.same(`insert into TBL values (2, cast(x'ff' as text))`)
	p.same(`insert into TBL values (cast(x'c328' as text), 'bad key')`)
	p.same(`update TBL set b = cast(x'80' as text) where k = 1`)
	p.same(`select k, hex(k), typeof(k), hex(b), typeof(b) from TBL order by k`)

	// the same transaction, once per table
	runTx := func(suffix string) string {
		var out []string
		for _, q := range []string{
			`begin`,
			`insert into TBL values (10, 'good row of the same transaction')`,
			`insert into TBL values (11, cast(x'ff' as text))`,
			`commit`,
		} {
			_, err := p.db.Exec(strings.ReplaceAll(q, "TBL", p.name+suffix))
			if err != nil {
				out = append(out, q+": ERR: "+err.Error())
				if q == `commit` {
					p.db.Exec(`rollback`)
				}
			} else {
				out = append(out, q+": ok")
			}
		}
		return strings.Join(out, "\n   ")
	}
	if n, v := runTx("_n"), runTx("_v"); n != v {
		t.Errorf("DIFFERENT transaction outcome:\n native:\n   %s\n s3db:\n   %s", n, v)
	}
	p.same(`select k, hex(b) from TBL where k in (10, 11) order by k`)
}

// Defect 5: NOT NULL on a non-key column is accepted in columns='...' and
// declared to SQLite, but never enforced; SQLite's planner trusts the
// declaration, so the stored NULL is invisible to IS NULL.
func TestHuntC06_NotNullValueColumn(t *testing.T) {
	p := newHuntPair(t, "k primary key, b not null, c", "")
	p.same(`insert into TBL values (1,'one','x')`)
	p.same(`insert into TBL values (2,NULL,'x')`)
	p.same(`insert into TBL(k,c) values (3,'x')`)
	p.same(`update TBL set b = NULL where k = 1`)
	p.same(`select k, b, c from TBL order by k`)
	p.same(`select count(*) from TBL where b is null`)
	p.same(`select count(*) from TBL where b is not null`)
	p.same(`select k, b is null from TBL order by k`)
}

// Defect 6 (same mechanism as 2 and 3): for "k LIKE 'ab%'" / "k GLOB 'ab*'"
// SQLite also hands xBestIndex the range terms of its LIKE optimisation
// (k >= 'ab' AND k < 'ac'); used as a binary window they cut off BLOB keys,
// which sort after all text but do match LIKE/GLOB.
func TestHuntC06_LikeGlobBlobKey(t *testing.T) {
	p := newHuntPair(t, "k primary key, b", "")
	p.same(`insert into TBL values ('abc','text'),(x'616266','blob abf'),('b','b')`)
	p.same(`select k from TBL where k like 'ab%' order by k`)
	p.same(`select k from TBL where k glob 'ab*' order by k`)
}
