package mod_test

// Hunt for violations of property C09 ("vacuum never changes what the table
// contains"). See NOTES.md at the top of the worktree.
//
//   go1.26.8 test ./sqlite/ -run 'TestHunt' -count=1 -v

import (
	"database/sql"
	"fmt"
	"testing"
	"time"

	"github.com/jrhy/s3db"
	"github.com/stretchr/testify/require"
)

func huntOpen(t *testing.T, db *sql.DB, name, bucket, endpoint, prefix string, epn int) {
	stmt := fmt.Sprintf(`create virtual table "%s" using s3db (
s3_bucket='%s',
s3_endpoint='%s',
s3_prefix='%s',
entries_per_node=%d,
columns='a primary key, b')`, name, bucket, endpoint, prefix, epn)
	_, err := db.Exec(stmt)
	require.NoError(t, err)
}

func huntUnique(s string) string {
	return fmt.Sprintf("%s_%d", s, time.Now().UnixNano())
}

func huntVersion(t *testing.T, db *sql.DB, table string) string {
	var v string
	require.NoError(t, db.QueryRow(`select s3db_version(?)`, table).Scan(&v))
	return v
}

// huntChanges reads the rows of s3db_changes(table, from, to).
func huntChanges(db *sql.DB, name, table, from, to string) (string, error) {
	_, err := db.Exec(fmt.Sprintf(`create virtual table %s using s3db_changes (table='%s', from='%s', to='%s')`,
		name, table, from, to))
	if err != nil {
		return "", fmt.Errorf("create: %w", err)
	}
	defer db.Exec(`drop table ` + name)
	rows, err := db.Query(`select * from ` + name)
	if err != nil {
		return "", fmt.Errorf("query: %w", err)
	}
	defer rows.Close()
	res := mustJSON(mustGetRows(rows))
	if err := rows.Err(); err != nil {
		return "", fmt.Errorf("rows: %w", err)
	}
	return res, nil
}

// Defect 1. Every version a connection commits is stamped with the time the
// connection was OPENED (kv.Open's "when"), not with the time the version is
// committed. Vacuum compares these stamps with the cutoff, so on a connection
// that was opened before the cutoff it deletes versions that were committed
// AFTER the cutoff.
//
// One connection, no concurrency, no faults:
//
//	open table            (T0)
//	cutoff := a whole second later than T0, not later than "now"
//	insert 1 -> version v1   (committed after the cutoff)
//	insert 2 -> version v2   (committed after the cutoff)
//	insert 3 -> version v3   (current)
//	s3db_changes(v1 -> v2) = [[2,"two"]]
//	s3db_vacuum(cutoff)      (reports success)
//	s3db_changes(v1 -> v2)   must be unchanged; fails: v1 "not found"
func TestHuntVacuumDeletesVersionsCommittedAfterCutoff(t *testing.T) {
	db, bucket, endpoint := openDB()
	db.SetMaxOpenConns(1)
	defer db.Close()

	huntOpen(t, db, "w", bucket, endpoint, huntUnique("hunt1"), 4) // connection opened: T0
	time.Sleep(1100 * time.Millisecond)
	// whole second, strictly after T0 and not after now
	cutoff := time.Now().UTC().Truncate(time.Second)
	cutoffStr := cutoff.Format(s3db.SQLiteTimeFormat)

	firstCommitNotBefore := time.Now()
	require.False(t, firstCommitNotBefore.Before(cutoff))
	_, err := db.Exec(`insert into w values(1,'one')`)
	require.NoError(t, err)
	v1 := huntVersion(t, db, "w")
	_, err = db.Exec(`insert into w values(2,'two')`)
	require.NoError(t, err)
	v2 := huntVersion(t, db, "w")
	_, err = db.Exec(`insert into w values(3,'three')`)
	require.NoError(t, err)
	v3 := huntVersion(t, db, "w")
	t.Logf("cutoff=%s; versions committed after %s: v1=%s v2=%s v3=%s (current)",
		cutoffStr, firstCommitNotBefore.UTC().Format(time.RFC3339Nano), v1, v2, v3)

	before, err := huntChanges(db, "ch_before", "w", v1, v2)
	require.NoError(t, err)
	require.Equal(t, `[[2,"two"]]`, before)

	require.Equal(t, `[[null]]`,
		mustQueryToJSON(db, fmt.Sprintf("select * from s3db_vacuum('w','%s')", cutoffStr)),
		"vacuum reports success")
	require.Equal(t, `[[1,"one"],[2,"two"],[3,"three"]]`, mustQueryToJSON(db, `select * from w`))

	// v1 and v2 were created after the cutoff: vacuum must have left them
	// exactly as they were.
	after, err := huntChanges(db, "ch_after", "w", v1, v2)
	require.NoError(t, err,
		"versions v1=%s and v2=%s were committed after the cutoff %s but vacuum deleted them", v1, v2, cutoffStr)
	require.Equal(t, before, after)
}

// Defect 1, consequence for another connection: a handle opened AFTER the
// cutoff sits on a version that was committed after the cutoff; the writer's
// vacuum(cutoff) deletes that version's tree nodes under it, and the handle
// can no longer read the table.
func TestHuntVacuumBreaksHandleOpenedAfterCutoff(t *testing.T) {
	db, bucket, endpoint := openDB()
	db.SetMaxOpenConns(1)
	defer db.Close()

	prefix := huntUnique("hunt2")
	huntOpen(t, db, "w", bucket, endpoint, prefix, 2) // writer opened: T0
	time.Sleep(1100 * time.Millisecond)
	cutoff := time.Now().UTC().Truncate(time.Second) // T0 < cutoff <= now
	cutoffStr := cutoff.Format(s3db.SQLiteTimeFormat)

	for i := 0; i < 40; i++ { // 40 versions, all committed after the cutoff
		_, err := db.Exec(`insert into w values(?,?)`, i, "x")
		require.NoError(t, err)
	}
	want := mustQueryToJSON(db, `select * from w`)

	// second handle on the same table, opened after the cutoff, on a version
	// committed after the cutoff
	huntOpen(t, db, "r", bucket, endpoint, prefix, 2)

	// the writer goes on and vacuums with the cutoff
	_, err := db.Exec(`update w set b='y'`)
	require.NoError(t, err)
	require.Equal(t, `[[null]]`,
		mustQueryToJSON(db, fmt.Sprintf("select * from s3db_vacuum('w','%s')", cutoffStr)))

	rows, err := db.Query(`select * from r`)
	require.NoError(t, err)
	got := mustJSON(mustGetRows(rows))
	require.NoError(t, rows.Err(),
		"handle opened after the cutoff %s, on a version committed after the cutoff, refers to objects vacuum deleted", cutoffStr)
	rows.Close()
	require.Equal(t, want, got)
}

// Defect 2. Vacuum marks the rows it purges with a tombstone at time.Time{},
// whose UnixNano() overflows to -6795364578871345152 (a date in 1754), and
// then removes tombstones "older than the cutoff" by comparing that number
// with cutoff.UnixNano(), which overflows too for cutoffs after 2262-04-11.
// For a cutoff in 2262-04-12..2339 (and again 2846..2923, ...) the wrapped
// cutoff is smaller than the wrapped tombstone time: the tombstones are
// committed instead of removed. crdt.Get only treats POSITIVE tombstone
// times as "absent", so the next INSERT of such a key finds an entry without
// a row and dereferences nil: the table is no longer writable.
func TestHuntVacuumFarFutureCutoffLeavesTombstones(t *testing.T) {
	db, bucket, endpoint := openDB()
	db.SetMaxOpenConns(1)
	// (not closed: if the INSERT below panics inside the SQLite callback, the
	// connection is left locked)

	run := func(table, cutoff string) {
		table = huntUnique(table) // stays registered if the INSERT panics
		huntOpen(t, db, table, bucket, endpoint, table, 4)
		_, err := db.Exec(`insert into ` + table + ` values(1,'one'),(2,'two')`)
		require.NoError(t, err)
		_, err = db.Exec(`delete from ` + table + ` where a=1`)
		require.NoError(t, err)

		require.Equal(t, `[[null]]`,
			mustQueryToJSON(db, fmt.Sprintf("select * from s3db_vacuum('%s','%s')", table, cutoff)),
			"vacuum reports success")
		require.Equal(t, `[[2,"two"]]`, mustQueryToJSON(db, `select * from `+table))

		func() {
			defer func() {
				if p := recover(); p != nil {
					t.Fatalf("after s3db_vacuum('%s','%s') the table is not writable: INSERT of the purged key panics: %v (entries in tree: %d, visible rows: 1)",
						table, cutoff, p, s3db.GetTable(table).Tree.Root.Size())
				}
			}()
			_, err = db.Exec(`insert into ` + table + ` values(1,'again')`)
		}()
		require.NoError(t, err)
		require.Equal(t, `[[1,"again"],[2,"two"]]`, mustQueryToJSON(db, `select * from `+table))
	}
	run("ctl", "2100-01-01 00:00:00") // control: same history, passes
	run("w", "2300-01-01 00:00:00")
	db.Close()
}
