package mod_test

// Hunt for violations of property C14 ("storage faults surface as errors;
// never as wrong answers, hangs or crashes").
//
//   go1.26.8 test -count=1 -v -run 'TestHuntC14' ./sqlite/

import (
	"context"
	"database/sql"
	"errors"
	"fmt"
	"net/http"
	"net/http/httptest"
	"net/http/httputil"
	"net/url"
	"strings"
	"sync"
	"testing"
	"time"

	"github.com/aws/aws-sdk-go/aws"
	"github.com/aws/aws-sdk-go/aws/request"
	"github.com/aws/aws-sdk-go/service/s3"
	"github.com/jrhy/mast/persist/s3test"
	"github.com/jrhy/s3db/kv"
	"github.com/stretchr/testify/require"
)

// ---------------------------------------------------------------------------
// helpers

// faultProxy sits between the AWS SDK client that s3db creates for
// s3_endpoint=... and the in-process fake S3 of s3test.Client(). While a
// fault predicate is installed, every matching request is answered by
// dropping the TCP connection without a response: a transport error (the SDK
// retries a few times and then gives up with "RequestError: send request
// failed").
type faultProxy struct {
	mu      sync.Mutex
	fail    func(r *http.Request) bool
	dropped []string
	proxy   *httputil.ReverseProxy
	srv     *httptest.Server
}

func newFaultProxy(t *testing.T) (fp *faultProxy, bucket string) {
	c, bucket, closer := s3test.Client()
	t.Cleanup(closer)
	u, err := url.Parse(c.Endpoint)
	require.NoError(t, err)
	fp = &faultProxy{proxy: httputil.NewSingleHostReverseProxy(u)}
	fp.srv = httptest.NewServer(fp)
	t.Cleanup(fp.srv.Close)
	return fp, bucket
}

func (fp *faultProxy) ServeHTTP(w http.ResponseWriter, r *http.Request) {
	fp.mu.Lock()
	fail := fp.fail != nil && fp.fail(r)
	if fail {
		fp.dropped = append(fp.dropped, r.Method+" "+r.URL.Path)
	}
	fp.mu.Unlock()
	if fail {
		conn, _, err := w.(http.Hijacker).Hijack()
		if err == nil {
			conn.Close()
		}
		return
	}
	fp.proxy.ServeHTTP(w, r)
}

func (fp *faultProxy) setFault(f func(r *http.Request) bool) {
	fp.mu.Lock()
	defer fp.mu.Unlock()
	fp.fail = f
	fp.dropped = nil
}

func (fp *faultProxy) clearFault() (dropped []string) {
	fp.mu.Lock()
	defer fp.mu.Unlock()
	fp.fail = nil
	return fp.dropped
}

func isNodeGet(r *http.Request) bool {
	return r.Method == http.MethodGet && strings.Contains(r.URL.Path, "/node/")
}

// openConn returns one pinned connection of a fresh in-memory SQLite
// database (virtual tables belong to the connection that created them).
func openConn(t *testing.T) *sql.Conn {
	db, err := sql.Open("sqlite3", ":memory:")
	require.NoError(t, err)
	t.Cleanup(func() { db.Close() })
	conn, err := db.Conn(context.Background())
	require.NoError(t, err)
	t.Cleanup(func() { conn.Close() })
	return conn
}

func mustExec(t *testing.T, conn *sql.Conn, q string, args ...interface{}) {
	t.Helper()
	_, err := conn.ExecContext(context.Background(), q, args...)
	require.NoError(t, err, q)
}

func queryInts(conn *sql.Conn, q string, args ...interface{}) ([]int64, error) {
	rows, err := conn.QueryContext(context.Background(), q, args...)
	if err != nil {
		return nil, err
	}
	defer rows.Close()
	res := []int64{}
	for rows.Next() {
		var i int64
		if err := rows.Scan(&i); err != nil {
			return nil, err
		}
		res = append(res, i)
	}
	return res, rows.Err()
}

func createTable(t *testing.T, conn *sql.Conn, name, endpoint, bucket, prefix string) {
	t.Helper()
	mustExec(t, conn, fmt.Sprintf(`create virtual table %s using s3db (
s3_bucket='%s',
s3_endpoint='%s',
s3_prefix='%s',
entries_per_node=4,
columns='k primary key, v')`, name, bucket, endpoint, prefix))
}

// ---------------------------------------------------------------------------
// Finding 1
//
// Inside an explicit transaction, a single-row INSERT whose one and only
// object-store request (the GET of the child node that has to be split
// around the new key) fails returns an error -- but leaves the table's tree
// structurally damaged: the key of the failed INSERT is in the parent node
// and the links on both of its sides point at the same, unsplit child. From
// then on, with the storage perfectly healthy again,
//   - SELECT in the same transaction returns a committed row twice, returns
//     the row whose INSERT reported an error, and returns them out of order;
//   - repeating the failed INSERT is refused with "key not unique";
//   - COMMIT succeeds and publishes the damage, so that every later open by
//     any connection returns the duplicated primary key.
//
// The twelve committed keys 10,20,...,120 with entries_per_node=4 give a
// two-level tree; key 5 is written first in the transaction so that the root
// node is the transaction's own mutable copy; 32 is a key that belongs in the
// root node, between two keys of the leaf {.., 30, ..}.

var huntCommitted = []int64{10, 20, 30, 40, 50, 60, 70, 80, 90, 100, 110, 120}

const huntFirstKey, huntFailedKey = 5, 32

func huntSetup(t *testing.T, endpoint, bucket, prefix string) *sql.Conn {
	conn := openConn(t)
	createTable(t, conn, "t_"+prefix, endpoint, bucket, prefix)
	vals := []string{}
	for _, k := range huntCommitted {
		vals = append(vals, fmt.Sprintf("(%d,%d)", k, k))
	}
	mustExec(t, conn, `insert into t_`+prefix+` values `+strings.Join(vals, ","))
	got, err := queryInts(conn, `select k from t_`+prefix+` order by k`)
	require.NoError(t, err)
	require.Equal(t, huntCommitted, got)
	return conn
}

// huntViewOK: the rows a correct table may show after the failed INSERT: the
// committed rows and the first INSERT of the transaction, each once, in key
// order. The row of the INSERT that reported an error should not be there;
// its presence alone is tolerated here (statements on s3db tables are known
// not to be undone individually), so that the test fails only on damage to
// rows the failed statement had nothing to do with.
func huntViewOK(got []int64) bool {
	without := append([]int64{huntFirstKey}, huntCommitted...)
	with := append([]int64{huntFirstKey, 10, 20, 30, huntFailedKey}, huntCommitted[3:]...)
	return fmt.Sprint(got) == fmt.Sprint(without) || fmt.Sprint(got) == fmt.Sprint(with)
}

func huntCheck(t *testing.T, conn *sql.Conn, table, endpoint, bucket, prefix string, insertErr error) {
	ctx := context.Background()
	// A failing request may fail the statement, that is fine (and it is
	// what happens).
	t.Logf("INSERT %d under the fault: %v", huntFailedKey, insertErr)
	require.Error(t, insertErr, "the only object-store request of this INSERT failed")

	// the transaction's view, storage healthy again
	sameTxn, err := queryInts(conn, `select k from `+table+` order by k`)
	require.NoError(t, err)
	t.Logf("same transaction, fault cleared: select k order by k = %v", sameTxn)

	// the natural reaction to the error is to repeat the statement
	_, retryErr := conn.ExecContext(ctx, `insert into `+table+` values (?,?)`, huntFailedKey, huntFailedKey)
	t.Logf("repeating the failed INSERT, fault cleared: %v", retryErr)

	// the storage is healthy: COMMIT works ...
	mustExec(t, conn, `commit`)

	// ... and a new connection sees what was committed
	conn2 := openConn(t)
	createTable(t, conn2, table+"_again", endpoint, bucket, prefix)
	newConn, err := queryInts(conn2, `select k from `+table+`_again order by k`)
	require.NoError(t, err)
	t.Logf("new connection after COMMIT: select k order by k = %v", newConn)
	n, err := queryInts(conn2, `select count(*) from `+table+`_again`)
	require.NoError(t, err)
	t.Logf("new connection after COMMIT: select count(*) = %v", n)
	n, err = queryInts(conn2, `select count(*) from `+table+`_again where k = 30`)
	require.NoError(t, err)
	t.Logf("new connection after COMMIT: select count(*) where k = 30 -> %v", n)

	require.True(t, huntViewOK(sameTxn),
		"after the failed INSERT (same transaction, no fault any more) SELECT returns a committed primary key twice and out of order: %v", sameTxn)
	require.True(t, huntViewOK(newConn),
		"a new connection after COMMIT reads a committed primary key twice and out of order: %v", newConn)
}

func TestHuntC14_FailedInsertInTransactionDamagesTree_Deadline(t *testing.T) {
	c, bucket, closer := s3test.Client()
	defer closer()
	prefix := "hunt_deadline"
	table := "t_" + prefix
	conn := huntSetup(t, c.Endpoint, bucket, prefix)

	mustExec(t, conn, `begin`)
	mustExec(t, conn, `insert into `+table+` values (?,?)`, huntFirstKey, huntFirstKey)
	// every request from now on runs past the deadline
	mustExec(t, conn, `update s3db_conn set deadline='2001-01-01 00:00:00'`)
	_, insertErr := conn.ExecContext(context.Background(),
		`insert into `+table+` values (?,?)`, huntFailedKey, huntFailedKey)
	// the fault clears: no deadline any more
	mustExec(t, conn, `update s3db_conn set deadline=null`)

	huntCheck(t, conn, table, c.Endpoint, bucket, prefix, insertErr)
}

func TestHuntC14_FailedInsertInTransactionDamagesTree_TransportError(t *testing.T) {
	fp, bucket := newFaultProxy(t)
	prefix := "hunt_transport"
	table := "t_" + prefix
	conn := huntSetup(t, fp.srv.URL, bucket, prefix)

	mustExec(t, conn, `begin`)
	mustExec(t, conn, `insert into `+table+` values (?,?)`, huntFirstKey, huntFirstKey)
	fp.setFault(isNodeGet)
	_, insertErr := conn.ExecContext(context.Background(),
		`insert into `+table+` values (?,?)`, huntFailedKey, huntFailedKey)
	dropped := fp.clearFault()
	t.Logf("requests dropped (the SDK's retries of one GET): %v", dropped)

	huntCheck(t, conn, table, fp.srv.URL, bucket, prefix, insertErr)
}

// ---------------------------------------------------------------------------
// Finding 2: a commit that failed leaves the nodes it did not manage to store
// marked as stored
//
// mast marks a node clean ("stored under this name") at the moment its PUT is
// *queued* (mast store.go:262-267), not when the PUT succeeded, and kv.DB
// relies on those marks: Commit (kv/kv.go:553-557) returns early when the
// tree is not dirty, and a later flush does not store a node that is marked
// clean (mast store.go:187-202).
//
// 2a (SQL, autocommit only). The SQLite layer drops the handle whose commit
// failed (ROLLBACK puts back the clone taken at BEGIN), but that clone shares
// nodes with the handle (the known clone-sharing defect: the leaf created
// for a new key is hung into a node both trees use). So after an outage in
// which the same INSERT failed twice -- both times with a proper error --
// the never-stored leaf is part of the connection's tree, marked as stored.
// The next successful write statement publishes a version whose root links
// to an object that does not exist: from then on every scan of the table,
// on any connection, fails with NoSuchKey, and keys in that range cannot be
// written.
//
// 2b, 2c (kv package API). Commit again after a failed Commit returns
// success without storing anything; Set + Commit after a failed Commit
// publishes a version with a link to a node that was never stored, which
// makes rows committed long before unreadable.

func TestHuntC14_FailedCommitsThenSuccessfulWritePublishesDanglingLink(t *testing.T) {
	fp, bucket := newFaultProxy(t)
	ctx := context.Background()
	prefix := "hunt_dangling"
	table := "t_" + prefix
	conn := huntSetup(t, fp.srv.URL, bucket, prefix)

	// outage: PUTs of tree nodes fail
	fp.setFault(func(r *http.Request) bool {
		return r.Method == http.MethodPut && strings.Contains(r.URL.Path, "/node/")
	})
	_, err := conn.ExecContext(ctx, `insert into `+table+` values (125,125)`)
	t.Logf("INSERT 125 during the outage, first attempt: %v", err)
	require.Error(t, err)
	_, err = conn.ExecContext(ctx, `insert into `+table+` values (125,125)`)
	t.Logf("INSERT 125 during the outage, second attempt: %v", err)
	require.Error(t, err)
	dropped := fp.clearFault()
	require.NotEmpty(t, dropped)

	// the outage is over; some other row is written, successfully
	mustExec(t, conn, `insert into `+table+` values (15,15)`)

	// every committed row must be readable, on this connection after a
	// refresh and on a new one (125 is tolerated: rows of rolled-back
	// transactions are known to reappear)
	check := func(who string, got []int64, err error) {
		t.Logf("%s: select k order by k = %v, err = %v", who, got, err)
		require.NoError(t, err, "%s: the table cannot be scanned any more although the outage is over and every statement either failed properly or succeeded", who)
		want := append([]int64{10, 15}, huntCommitted[1:]...)
		if len(got) == len(want)+1 {
			want = append(want, 125)
		}
		require.Equal(t, want, got, who)
	}
	var dummy interface{}
	require.NoError(t, conn.QueryRowContext(ctx, `select s3db_refresh('`+table+`')`).Scan(&dummy))
	got, err := queryInts(conn, `select k from `+table+` order by k`)
	gotNew, errNew := func() ([]int64, error) {
		conn2 := openConn(t)
		createTable(t, conn2, table+"_again", fp.srv.URL, bucket, prefix)
		return queryInts(conn2, `select k from `+table+`_again order by k`)
	}()
	_, werr := conn.ExecContext(ctx, `insert into `+table+` values (130,130)`)
	t.Logf("INSERT 130 (a key next to the missing leaf): %v", werr)
	check("same connection after s3db_refresh", got, err)
	check("new connection", gotNew, errNew)
	require.NoError(t, werr)
}

type failingS3 struct {
	kv.S3Interface
	mu      sync.Mutex
	failPut func(key string) bool
	failed  []string
}

func (f *failingS3) PutObjectWithContext(ctx aws.Context, input *s3.PutObjectInput, opts ...request.Option) (*s3.PutObjectOutput, error) {
	f.mu.Lock()
	fail := f.failPut != nil && f.failPut(*input.Key)
	if fail {
		f.failed = append(f.failed, *input.Key)
	}
	f.mu.Unlock()
	if fail {
		return nil, errors.New("injected: connection reset by peer")
	}
	return f.S3Interface.PutObjectWithContext(ctx, input, opts...)
}

func huntCommitRetry(t *testing.T, prefix string, failPut func(key string) bool) {
	ctx := context.Background()
	c, bucket, closer := s3test.Client()
	defer closer()
	fs3 := &failingS3{S3Interface: c}
	cfg := kv.Config{
		Storage:      &kv.S3BucketInfo{EndpointURL: c.Endpoint, BucketName: bucket, Prefix: prefix},
		KeysLike:     "key",
		ValuesLike:   1234,
		BranchFactor: 4,
	}
	now := time.Now()
	db, err := kv.Open(ctx, fs3, cfg, kv.OpenOptions{}, now)
	require.NoError(t, err)
	defer db.Cancel()
	require.NoError(t, db.Set(ctx, now, "committed", 1))
	_, err = db.Commit(ctx)
	require.NoError(t, err)

	require.NoError(t, db.Set(ctx, now.Add(time.Second), "hello", 5))
	fs3.failPut = failPut
	_, err = db.Commit(ctx)
	t.Logf("Commit under the fault: %v (failed PUTs: %v)", err, fs3.failed)
	require.Error(t, err)
	require.NotEmpty(t, fs3.failed)
	fs3.failPut = nil

	// the fault is gone: commit again
	_, err = db.Commit(ctx)
	t.Logf("Commit again, fault cleared: err=%v", err)
	if err != nil {
		// refusing is fine
		return
	}

	// Commit reported success: a later open must see the value
	db2, err := kv.Open(ctx, c, cfg, kv.OpenOptions{ReadOnly: true}, now.Add(time.Minute))
	require.NoError(t, err)
	var v int
	ok, err := db2.Get(ctx, "committed", &v)
	require.NoError(t, err)
	require.True(t, ok)
	ok, err = db2.Get(ctx, "hello", &v)
	require.NoError(t, err, "a later open cannot even read the tree")
	require.True(t, ok, "Commit returned success, but a later open does not see the value")
	require.Equal(t, 5, v)
}

func TestHuntC14_KVCommitAfterFailedCommit_VersionPutFails(t *testing.T) {
	huntCommitRetry(t, "hunt_commit_root", func(key string) bool {
		return strings.Contains(key, "/root/current/")
	})
}

func TestHuntC14_KVCommitAfterFailedCommit_NodePutFails(t *testing.T) {
	huntCommitRetry(t, "hunt_commit_node", func(key string) bool {
		return strings.Contains(key, "/node/")
	})
}

func TestHuntC14_KVSetAndCommitAfterFailedCommitPublishesVersionWithMissingNode(t *testing.T) {
	ctx := context.Background()
	c, bucket, closer := s3test.Client()
	defer closer()
	fs3 := &failingS3{S3Interface: c}
	cfg := kv.Config{
		Storage:      &kv.S3BucketInfo{EndpointURL: c.Endpoint, BucketName: bucket, Prefix: "hunt_commit_continue"},
		KeysLike:     "key",
		ValuesLike:   1234,
		BranchFactor: 4,
	}
	now := time.Now()
	db, err := kv.Open(ctx, fs3, cfg, kv.OpenOptions{}, now)
	require.NoError(t, err)
	defer db.Cancel()
	for i := 0; i < 20; i++ {
		require.NoError(t, db.Set(ctx, now, fmt.Sprintf("k%02d", i), i))
	}
	_, err = db.Commit(ctx)
	require.NoError(t, err)

	require.NoError(t, db.Set(ctx, now.Add(time.Second), "k03", 1003))
	fs3.failPut = func(key string) bool { return strings.Contains(key, "/node/") }
	_, err = db.Commit(ctx)
	t.Logf("Commit under the fault: %v", err)
	require.Error(t, err)
	fs3.failPut = nil

	// the fault is gone; the application carries on with its handle
	require.NoError(t, db.Set(ctx, now.Add(2*time.Second), "k17", 1017))
	_, err = db.Commit(ctx)
	t.Logf("Set + Commit, fault cleared: err=%v", err)
	if err != nil {
		return // refusing is fine
	}
	db2, err := kv.Open(ctx, c, cfg, kv.OpenOptions{ReadOnly: true}, now.Add(time.Minute))
	require.NoError(t, err)
	for i := 0; i < 20; i++ {
		var v int
		k := fmt.Sprintf("k%02d", i)
		ok, err := db2.Get(ctx, k, &v)
		require.NoError(t, err, "a later open cannot read %s, committed before the fault", k)
		require.True(t, ok, k)
	}
}
