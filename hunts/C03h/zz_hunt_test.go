package kv

import (
	"context"
	"errors"
	"fmt"
	"strings"
	"sync"
	"testing"
	"time"

	"github.com/aws/aws-sdk-go/aws"
	"github.com/aws/aws-sdk-go/aws/request"
	"github.com/aws/aws-sdk-go/service/s3"
	"github.com/jrhy/mast/persist/s3test"
)

// huntS3 wraps the in-memory S3 client the other tests use. While "outage" is
// set, every PUT whose key contains outageSubstr fails with a transient error
// (nothing is stored); everything else is passed through unchanged.
type huntS3 struct {
	S3Interface
	mu           sync.Mutex
	outage       bool
	outageSubstr string
	failedPuts   int
	// afterList, if set, is called after every successful LIST request with
	// the number of that request (1, 2, ...), before the result is returned
	// to the caller: a hook to run another client's requests in between two
	// requests of an open.
	afterList func(n int)
	lists     int
}

func (h *huntS3) PutObjectWithContext(ctx aws.Context, input *s3.PutObjectInput, opts ...request.Option) (*s3.PutObjectOutput, error) {
	h.mu.Lock()
	fail := h.outage && strings.Contains(*input.Key, h.outageSubstr)
	if fail {
		h.failedPuts++
	}
	h.mu.Unlock()
	if fail {
		return nil, errors.New("injected: 503 SlowDown")
	}
	return h.S3Interface.PutObjectWithContext(ctx, input, opts...)
}

func (h *huntS3) ListObjectsV2WithContext(ctx aws.Context, input *s3.ListObjectsV2Input, opts ...request.Option) (*s3.ListObjectsV2Output, error) {
	out, err := h.S3Interface.ListObjectsV2WithContext(ctx, input, opts...)
	if err != nil {
		return out, err
	}
	h.mu.Lock()
	h.lists++
	n := h.lists
	cb := h.afterList
	h.mu.Unlock()
	if cb != nil {
		cb(n)
	}
	return out, err
}

func (h *huntS3) setOutage(on bool, substr string) {
	h.mu.Lock()
	defer h.mu.Unlock()
	h.outage = on
	h.outageSubstr = substr
}

func huntKeys(t *testing.T, db *DB, keys []int) (present, missing []int) {
	t.Helper()
	for _, k := range keys {
		var v string
		ok, err := db.Get(context.Background(), k, &v)
		if err != nil {
			t.Fatalf("get %d: %v", k, err)
		}
		if ok {
			present = append(present, k)
		} else {
			missing = append(missing, k)
		}
	}
	return
}

// A Commit() that failed on a transient storage error (the PUT of the version
// object is refused once) is simply called again. The second call reports
// success and names a version -- but stores nothing: the handle stopped being
// "dirty" when the nodes were flushed, so Commit takes its nothing-to-do exit
// and returns the PREVIOUS version's name. The acknowledged rows are in no
// version; an open that begins afterwards does not see them.
func TestHuntC03_CommitRetriedAfterFailedVersionPutAcknowledgesNothing(t *testing.T) {
	ctx := context.Background()
	realC, bucket, closer := s3test.Client()
	t.Cleanup(closer)
	c := &huntS3{S3Interface: realC}
	cfg := Config{
		Storage:    &S3BucketInfo{realC.Endpoint, bucket, "hunt-retry"},
		KeysLike:   0,
		ValuesLike: "",
	}
	t0 := time.Unix(1700000000, 0)

	w, err := Open(ctx, c, cfg, OpenOptions{}, t0)
	if err != nil {
		t.Fatal(err)
	}
	defer w.Cancel()
	if err := w.Set(ctx, t0, 1, "one"); err != nil {
		t.Fatal(err)
	}
	v1, err := w.Commit(ctx)
	if err != nil {
		t.Fatal(err)
	}

	if err := w.Set(ctx, t0.Add(time.Second), 2, "two"); err != nil {
		t.Fatal(err)
	}
	c.setOutage(true, "/root/current/")
	_, err = w.Commit(ctx)
	c.setOutage(false, "")
	if err == nil {
		t.Fatal("the injected failure did not fail the commit")
	}
	t.Logf("first attempt failed as injected: %v", err)

	v2, err := w.Commit(ctx) // the retry
	if err != nil {
		t.Fatalf("retry failed too (that would be fine, but is not what happens): %v", err)
	}
	t.Logf("retry acknowledged; version named %q (previous version was %q); IsDirty=%v", *v2, *v1, w.IsDirty())

	r, err := Open(ctx, realC, cfg, OpenOptions{ReadOnly: true}, t0.Add(time.Minute))
	if err != nil {
		t.Fatal(err)
	}
	present, missing := huntKeys(t, r, []int{1, 2})
	if len(missing) > 0 {
		t.Fatalf("Commit() returned nil, yet an open that began after it does not contain the committed rows: present=%v missing=%v (versions seen by the opener: %v, current/ holds %v)",
			present, missing, mustRoots(r), mustList(t, w))
	}
}

// The same transient outage, hitting the node objects instead (several nodes:
// small branch factor). Commit() fails, correctly. The retry is acknowledged
// and, again, stores nothing -- and this time nothing can be stored any more:
// mast's flush marked every node "stored" and replaced the in-memory child
// nodes by links to their object names BEFORE any PUT was attempted, so the
// handle's own tree now points at objects that do not exist. The rows of the
// acknowledged commit are in no version and no longer in memory either.
func TestHuntC03_CommitRetriedAfterFailedNodePutAcknowledgesNothing(t *testing.T) {
	ctx := context.Background()
	realC, bucket, closer := s3test.Client()
	t.Cleanup(closer)
	c := &huntS3{S3Interface: realC}
	cfg := Config{
		Storage:      &S3BucketInfo{realC.Endpoint, bucket, "hunt-retry-node"},
		KeysLike:     0,
		ValuesLike:   "",
		BranchFactor: 4, // several nodes with few keys
	}
	t0 := time.Unix(1700000000, 0)

	w, err := Open(ctx, c, cfg, OpenOptions{}, t0)
	if err != nil {
		t.Fatal(err)
	}
	defer w.Cancel()
	var all []int
	for k := 0; k < 10; k++ {
		if err := w.Set(ctx, t0, k, fmt.Sprint("v", k)); err != nil {
			t.Fatal(err)
		}
		all = append(all, k)
	}
	v1, err := w.Commit(ctx)
	if err != nil {
		t.Fatal(err)
	}

	for k := 100; k < 140; k++ {
		if err := w.Set(ctx, t0.Add(time.Second), k, fmt.Sprint("v", k)); err != nil {
			t.Fatal(err)
		}
		all = append(all, k)
	}
	c.setOutage(true, "/node/")
	_, err = w.Commit(ctx)
	c.setOutage(false, "")
	if err == nil {
		t.Fatal("the injected failure did not fail the commit")
	}
	t.Logf("commit during the outage failed as it should (%d node PUT refused, mast gave up on the rest): %v", c.failedPuts, err)

	v2, err := w.Commit(ctx) // the retry, storage is healthy again
	if err != nil {
		t.Fatalf("retry failed too (that would be fine, but is not what happens): %v", err)
	}
	t.Logf("retry acknowledged; version named %q (previous version was %q); IsDirty=%v", *v2, *v1, w.IsDirty())

	r, err := Open(ctx, realC, cfg, OpenOptions{ReadOnly: true}, t0.Add(time.Minute))
	if err != nil {
		t.Fatal(err)
	}
	present, missing := huntKeys(t, r, all)
	if len(missing) > 0 {
		var v string
		_, ownErr := w.Get(ctx, 100, &v)
		t.Fatalf("Commit() returned nil, yet an open that began after it contains %d of the %d committed keys, %d are missing (current/ holds %v); the committing handle reading its own key 100: %v",
			len(present), len(all), len(missing), mustList(t, w), ownErr)
	}
}

func mustRoots(db *DB) []string {
	r, _ := db.Roots()
	return r
}

func mustList(t *testing.T, db *DB) []string {
	t.Helper()
	l, err := db.listRoots(context.Background())
	if err != nil {
		t.Fatal(err)
	}
	return l
}

// Pure interleaving, no failures: the LIST of current/ is not one request once
// more than 1000 versions are current (S3 returns at most 1000 keys per
// request). Version names do not sort by age (the creation time is written in
// base 62 with the digits 0-9a-zA-Z, which ASCII orders 0-9A-Za-z), so a
// successor can sort into a page the opener has already fetched while the
// version it retires sorts into a page the opener has not fetched yet:
//
//	opener:  LIST current/ page 1            (1000 names; neither L nor N)
//	writer:  PUT node, PUT current/N, PUT merged/L, DELETE current/L   (N sorts first, L sorted last)
//	opener:  LIST current/ page 2            (empty: L is gone)
//	opener:  GET each of the 1000 ...
//
// The opener's view contains neither L (committed long before the open
// began) nor its successor N.
func TestHuntC03_PaginatedListMissesVersionRetiredBetweenPages(t *testing.T) {
	ctx := context.Background()
	realC, bucket, closer := s3test.Client()
	t.Cleanup(closer)
	cfg := Config{
		Storage:    &S3BucketInfo{realC.Endpoint, bucket, "hunt-pages"},
		KeysLike:   0,
		ValuesLike: "",
	}
	// creation time whose last base-62 digit is 'z'; one second later it is 'A'
	sec := int64(1700000000)
	sec = sec - sec%62 + 35
	t0 := time.Unix(sec, 0)

	const writers = 1001
	handles := make([]*DB, writers)
	for i := range handles {
		h, err := Open(ctx, realC, cfg, OpenOptions{}, t0)
		if err != nil {
			t.Fatal(err)
		}
		defer h.Cancel()
		handles[i] = h
	}
	owner := map[string]int{}
	var all []int
	for i, h := range handles {
		if err := h.Set(ctx, t0, i, fmt.Sprint("row of writer ", i)); err != nil {
			t.Fatal(err)
		}
		name, err := h.Commit(ctx)
		if err != nil {
			t.Fatal(err)
		}
		owner[*name] = i
		all = append(all, i)
	}
	names := mustList(t, handles[0])
	if len(names) != writers {
		t.Fatalf("expected %d current versions, have %d", writers, len(names))
	}
	last := names[len(names)-1] // LIST is sorted: this one is alone on page 2
	w := handles[owner[last]]

	// control: an undisturbed open pages through the listing and sees every row
	ctl, err := Open(ctx, realC, cfg, OpenOptions{ReadOnly: true}, t0.Add(time.Minute))
	if err != nil {
		t.Fatal(err)
	}
	if _, missing := huntKeys(t, ctl, all); len(missing) > 0 {
		t.Fatalf("control open misses %v", missing)
	}

	c := &huntS3{S3Interface: realC}
	var successor string
	c.afterList = func(n int) {
		if n != 1 {
			return
		}
		// between the opener's first and second LIST request, the writer
		// that owns the last-listed version commits once more
		w.Touch(t0.Add(time.Second))
		if err := w.Set(ctx, t0.Add(time.Second), 5000, "second row of that writer"); err != nil {
			t.Error(err)
		}
		name, err := w.Commit(ctx)
		if err != nil {
			t.Error(err)
			return
		}
		successor = *name
	}
	r, err := Open(ctx, c, cfg, OpenOptions{ReadOnly: true}, t0.Add(time.Minute))
	if err != nil {
		t.Fatal(err)
	}
	if c.lists != 2 {
		t.Fatalf("expected the open to need 2 LIST requests, it made %d", c.lists)
	}
	t.Logf("retired between the pages: %s (row %d), successor %s", last, owner[last], successor)
	_, missing := huntKeys(t, r, all)
	if len(missing) > 0 {
		roots := mustRoots(r)
		t.Fatalf("the open began after all %d commits had completed, but its view lacks row(s) %v: it holds %d versions, neither %s nor its successor %s (size %d)",
			writers, missing, len(roots), last, successor, r.Size())
	}
}
