package mod_test

import (
	"context"
	"database/sql"
	"fmt"
	"math/rand"
	"net/http"
	"net/http/httptest"
	"os"
	"sort"
	"strings"
	"sync"
	"testing"
	"time"

	"github.com/aws/aws-sdk-go/aws"
	"github.com/aws/aws-sdk-go/aws/awserr"
	"github.com/aws/aws-sdk-go/aws/credentials"
	"github.com/aws/aws-sdk-go/aws/request"
	"github.com/aws/aws-sdk-go/aws/session"
	"github.com/aws/aws-sdk-go/service/s3"
	"github.com/johannesboyne/gofakes3"
	"github.com/johannesboyne/gofakes3/backend/s3mem"
	"github.com/jrhy/s3db/kv"
)

// huntBucket is an in-memory S3 server (the same gofakes3 the existing tests
// use through s3test.Client) behind a gate that simulates the death of the
// client process: once the gate has let `budget` mutating requests (PUT,
// DELETE) through, every further request of any kind is refused, so the
// bucket stays exactly as the dead process left it. restart() lifts the
// gate for the next "process".
type huntBucket struct {
	mu      sync.Mutex
	armed   bool
	budget  int
	dead    bool
	log     []string // mutating requests that reached the bucket
	inner   http.Handler
	srv     *httptest.Server
	client  *s3.S3
	bucket  string
	crashIf func(method, path string) bool // optional: die just BEFORE this mutating request
	failAt  int                            // >0: refuse the failAt-th mutating request from now (once), without dying
	failed  string
	lands   bool // the refused request is applied by the bucket all the same (lost response)
}

func newHuntBucket(t *testing.T) *huntBucket {
	hb := &huntBucket{bucket: "hunt"}
	hb.inner = gofakes3.New(s3mem.New()).Server()
	hb.srv = httptest.NewServer(hb)
	t.Cleanup(hb.srv.Close)
	sess, err := session.NewSession(&aws.Config{
		Credentials:      credentials.NewStaticCredentials("x", "y", ""),
		Endpoint:         aws.String(hb.srv.URL),
		Region:           aws.String("dummy"),
		DisableSSL:       aws.Bool(true),
		S3ForcePathStyle: aws.Bool(true),
	})
	if err != nil {
		t.Fatal(err)
	}
	hb.client = s3.New(sess)
	if _, err := hb.client.CreateBucket(&s3.CreateBucketInput{Bucket: &hb.bucket}); err != nil {
		t.Fatal(err)
	}
	hb.log = nil
	return hb
}

func (hb *huntBucket) ServeHTTP(w http.ResponseWriter, r *http.Request) {
	mutating := r.Method == http.MethodPut || r.Method == http.MethodDelete
	hb.mu.Lock()
	if !hb.dead && mutating {
		if hb.armed && hb.budget == 0 {
			hb.dead = true
		} else if hb.crashIf != nil && hb.crashIf(r.Method, r.URL.Path) {
			hb.dead = true
		}
	}
	if !hb.dead && mutating && hb.failAt > 0 {
		hb.failAt--
		if hb.failAt == 0 {
			hb.failed = r.Method + " " + r.URL.Path
			lands := hb.lands
			hb.mu.Unlock()
			if lands {
				hb.inner.ServeHTTP(httptest.NewRecorder(), r)
			}
			w.Header().Set("Content-Type", "application/xml")
			w.WriteHeader(http.StatusForbidden)
			fmt.Fprint(w, `<?xml version="1.0" encoding="UTF-8"?><Error><Code>AccessDenied</Code><Message>injected</Message></Error>`)
			return
		}
	}
	if hb.dead {
		hb.mu.Unlock()
		// not retried by the SDK
		w.Header().Set("Content-Type", "application/xml")
		w.WriteHeader(http.StatusForbidden)
		fmt.Fprint(w, `<?xml version="1.0" encoding="UTF-8"?><Error><Code>AccessDenied</Code><Message>process is dead</Message></Error>`)
		return
	}
	if mutating {
		if hb.armed {
			hb.budget--
		}
		hb.log = append(hb.log, r.Method+" "+r.URL.Path)
	}
	hb.mu.Unlock()
	hb.inner.ServeHTTP(w, r)
}

// dieAfter lets n more mutating requests through, then kills the process.
func (hb *huntBucket) dieAfter(n int) {
	hb.mu.Lock()
	defer hb.mu.Unlock()
	hb.armed, hb.budget, hb.dead = true, n, false
}

func (hb *huntBucket) restart() {
	hb.mu.Lock()
	defer hb.mu.Unlock()
	hb.armed, hb.dead, hb.crashIf = false, false, nil
}

func (hb *huntBucket) isDead() bool {
	hb.mu.Lock()
	defer hb.mu.Unlock()
	return hb.dead
}

func (hb *huntBucket) mark() int {
	hb.mu.Lock()
	defer hb.mu.Unlock()
	return len(hb.log)
}

func (hb *huntBucket) since(mark int) []string {
	hb.mu.Lock()
	defer hb.mu.Unlock()
	return append([]string{}, hb.log[mark:]...)
}

func (hb *huntBucket) list(t *testing.T, prefix string) []string {
	out, err := hb.client.ListObjectsV2(&s3.ListObjectsV2Input{Bucket: &hb.bucket, Prefix: &prefix})
	if err != nil {
		t.Fatal(err)
	}
	var res []string
	for _, o := range out.Contents {
		res = append(res, strings.TrimPrefix(*o.Key, prefix))
	}
	sort.Strings(res)
	return res
}

// huntProcess is one "process": its own SQLite connection with the table
// attached to the shared bucket.
type huntProcess struct {
	db *sql.DB
}

func (hb *huntBucket) open(prefix, extra string) (*huntProcess, error) {
	return hb.openAs("t", prefix, extra)
}

// openAs: the table is visible as view "t" whatever its registered name is
// (two live processes of one test need different registered names).
func (hb *huntBucket) openAs(name, prefix, extra string) (*huntProcess, error) {
	db, err := sql.Open("sqlite3", ":memory:")
	if err != nil {
		return nil, err
	}
	db.SetMaxOpenConns(1)
	_, err = db.Exec(fmt.Sprintf(`create virtual table %s using s3db (%s
s3_bucket='%s',
s3_endpoint='%s',
s3_prefix='%s',
columns='k primary key, a, b')`, name, extra, hb.bucket, hb.srv.URL, prefix))
	if err != nil {
		db.Close()
		return nil, err
	}
	return &huntProcess{db}, nil
}

func (p *huntProcess) close() { p.db.Close() }

func (p *huntProcess) contents(t *testing.T) string {
	t.Helper()
	return mustQueryToJSON(p.db, `select k, a, b from t order by k`)
}

func (p *huntProcess) exec(stmts ...string) error {
	for _, s := range stmts {
		if _, err := p.db.Exec(s); err != nil {
			return fmt.Errorf("%s: %w", s, err)
		}
	}
	return nil
}

func (hb *huntBucket) failNth(n int) {
	hb.mu.Lock()
	defer hb.mu.Unlock()
	hb.failAt, hb.failed = n, ""
}

func (hb *huntBucket) whatFailed() string {
	hb.mu.Lock()
	defer hb.mu.Unlock()
	hb.failAt = 0
	return hb.failed
}

// ---------------------------------------------------------------------------
// The defect: a kv.DB handle reports itself clean after a Commit that FAILED.
// ---------------------------------------------------------------------------

// flakyS3 wraps the object-store client: while n > 0, a PutObject whose key
// contains `match` is refused with a transient error (and n is decremented).
type flakyS3 struct {
	kv.S3Interface
	mu    sync.Mutex
	match string
	n     int
}

func (f *flakyS3) failPuts(match string, n int) {
	f.mu.Lock()
	defer f.mu.Unlock()
	f.match, f.n = match, n
}

func (f *flakyS3) PutObjectWithContext(ctx aws.Context, in *s3.PutObjectInput, opts ...request.Option) (*s3.PutObjectOutput, error) {
	f.mu.Lock()
	if f.n > 0 && strings.Contains(*in.Key, f.match) {
		f.n--
		f.mu.Unlock()
		return nil, awserr.New("RequestTimeout", "injected transient failure", nil)
	}
	f.mu.Unlock()
	return f.S3Interface.PutObjectWithContext(ctx, in, opts...)
}

func huntKVConfig(hb *huntBucket, prefix string) kv.Config {
	return kv.Config{
		Storage:      &kv.S3BucketInfo{EndpointURL: hb.srv.URL, BucketName: hb.bucket, Prefix: prefix},
		KeysLike:     "key",
		ValuesLike:   "value",
		BranchFactor: 4,
	}
}

// huntCommitRetry: commit k1; Set k2; Commit fails on one transient storage
// error (one PUT of the kind `failing` is refused, nothing else goes wrong);
// the caller retries Commit on the same handle, which is acknowledged (nil
// error). A later open must then show k2.
func huntCommitRetry(t *testing.T, failing string) {
	hb := newHuntBucket(t)
	ctx := context.Background()
	f := &flakyS3{S3Interface: hb.client}
	cfg := huntKVConfig(hb, "retry")
	db, err := kv.Open(ctx, f, cfg, kv.OpenOptions{}, time.Now())
	if err != nil {
		t.Fatal(err)
	}
	defer db.Cancel()
	if err := db.Set(ctx, time.Now(), "k1", "v1"); err != nil {
		t.Fatal(err)
	}
	v1, err := db.Commit(ctx)
	if err != nil {
		t.Fatal(err)
	}
	if err := db.Set(ctx, time.Now(), "k2", "v2"); err != nil {
		t.Fatal(err)
	}
	if !db.IsDirty() {
		t.Fatal("handle should be dirty after Set")
	}
	m := hb.mark()
	f.failPuts(failing, 1)
	_, err = db.Commit(ctx)
	if err == nil {
		t.Fatal("expected the injected failure to fail Commit")
	}
	t.Logf("Commit #1: %v", err)
	t.Logf("IsDirty() after the failed Commit: %v", db.IsDirty())
	m2 := hb.mark()
	v2, err := db.Commit(ctx)
	if err != nil {
		t.Fatalf("Commit #2 (retry) failed too: %v", err)
	}
	t.Logf("Commit #2 (retry): acknowledged, err=nil, version %q (version before the transaction: %q)", *v2, *v1)
	t.Logf("mutating requests that reached the bucket during Commit #1: %v", hb.since(m)[:m2-m])
	t.Logf("mutating requests that reached the bucket during Commit #2: %v", hb.since(m2))

	for _, ro := range []bool{true, false} {
		db2, err := kv.Open(ctx, hb.client, cfg, kv.OpenOptions{ReadOnly: ro}, time.Now())
		if err != nil {
			t.Fatalf("reopen (readonly=%v): %v", ro, err)
		}
		var v string
		ok, err := db2.Get(ctx, "k2", &v)
		db2.Cancel()
		if err != nil {
			t.Fatalf("reopen (readonly=%v): Get k2: %v", ro, err)
		}
		if !ok || v != "v2" {
			t.Errorf("Commit was acknowledged, but a later open (readonly=%v) does not show k2 (found=%v value=%q)", ro, ok, v)
		}
	}
}

// The PUT of the version object (root/current/...) fails once.
func TestHuntCommitRetryAfterVersionPutFailed(t *testing.T) {
	huntCommitRetry(t, "/root/current/")
}

// The PUT of a tree node fails once.
func TestHuntCommitRetryAfterNodePutFailed(t *testing.T) {
	huntCommitRetry(t, "/node/")
}

// The same cause, worse outcome: after the failed Commit the caller goes on
// using the handle (another Set, another Commit, which succeeds). The nodes
// the failed Commit did not store are believed stored, the acknowledged
// version links to them, and keys that were committed long before are no
// longer readable by any later open.
func TestHuntCommitAfterFailedCommitLosesEarlierData(t *testing.T) {
	hb := newHuntBucket(t)
	ctx := context.Background()
	f := &flakyS3{S3Interface: hb.client}
	cfg := huntKVConfig(hb, "dangling")
	db, err := kv.Open(ctx, f, cfg, kv.OpenOptions{}, time.Now())
	if err != nil {
		t.Fatal(err)
	}
	defer db.Cancel()
	const n = 40
	for i := 0; i < n; i++ {
		if err := db.Set(ctx, time.Now(), fmt.Sprintf("k%02d", i), "v1"); err != nil {
			t.Fatal(err)
		}
	}
	if _, err := db.Commit(ctx); err != nil {
		t.Fatal(err)
	}
	// transaction 2: fails at commit, storage refuses the node PUTs
	if err := db.Set(ctx, time.Now(), "k00", "v2"); err != nil {
		t.Fatal(err)
	}
	f.failPuts("/node/", 1000)
	if _, err = db.Commit(ctx); err == nil {
		t.Fatal("expected the injected failure to fail Commit")
	}
	t.Logf("Commit #2: %v", err)
	f.failPuts("", 0) // storage is healthy again
	// transaction 3: unrelated key, commit acknowledged
	if err := db.Set(ctx, time.Now(), "k39", "v3"); err != nil {
		t.Fatal(err)
	}
	name, err := db.Commit(ctx)
	if err != nil {
		t.Fatalf("Commit #3: %v", err)
	}
	t.Logf("Commit #3 acknowledged: %s", *name)

	db2, err := kv.Open(ctx, hb.client, cfg, kv.OpenOptions{ReadOnly: true}, time.Now())
	if err != nil {
		t.Fatalf("reopen: %v", err)
	}
	defer db2.Cancel()
	bad := 0
	for i := 0; i < n; i++ {
		var v string
		k := fmt.Sprintf("k%02d", i)
		ok, err := db2.Get(ctx, k, &v)
		if err != nil || !ok {
			bad++
			if bad <= 3 {
				t.Logf("%s: found=%v err=%v", k, ok, err)
			}
		}
	}
	if bad > 0 {
		t.Errorf("after an acknowledged commit, %d of %d keys committed earlier cannot be read by a later open", bad, n)
	}
}

// ---------------------------------------------------------------------------
// Ground covered without finding a violation (skipped unless HUNT_EXPLORE=1).
// ---------------------------------------------------------------------------

func huntExploreOnly(t *testing.T) {
	if os.Getenv("HUNT_EXPLORE") == "" {
		t.Skip("exploration that found no violation; set HUNT_EXPLORE=1 to run")
	}
}

type huntRow struct{ a, b interface{} }

func huntModelJSON(m map[int]huntRow) string {
	keys := []int{}
	for k := range m {
		keys = append(keys, k)
	}
	sort.Ints(keys)
	rows := [][]interface{}{}
	for _, k := range keys {
		rows = append(rows, []interface{}{k, m[k].a, m[k].b})
	}
	if len(rows) == 0 {
		return "null"
	}
	return mustJSON(rows)
}

func huntCopy(m map[int]huntRow) map[int]huntRow {
	c := map[int]huntRow{}
	for k, v := range m {
		c[k] = v
	}
	return c
}

func TestHuntRandom(t *testing.T) {
	huntExploreOnly(t)
	seeds := 60
	if s := os.Getenv("HUNT_SEEDS"); s != "" {
		fmt.Sscan(s, &seeds)
	}
	base := 0
	if s := os.Getenv("HUNT_BASE"); s != "" {
		fmt.Sscan(s, &base)
	}
	hb := newHuntBucket(t)
	for seed := base; seed < base+seeds; seed++ {
		huntRandomOne(t, hb, int64(seed))
		if t.Failed() {
			return
		}
	}
}

func huntRandomOne(t *testing.T, hb *huntBucket, seed int64) {
	rng := rand.New(rand.NewSource(seed))
	prefix := fmt.Sprintf("r%d", seed)
	epn := 2 + rng.Intn(3)
	extra := fmt.Sprintf("entries_per_node=%d,", epn)
	var trace []string
	logf := func(f string, a ...interface{}) { trace = append(trace, fmt.Sprintf(f, a...)) }
	fail := func(f string, a ...interface{}) {
		t.Errorf("seed %d: %s\ntrace:\n  %s", seed, fmt.Sprintf(f, a...), strings.Join(trace, "\n  "))
	}
	model := map[int]huntRow{}
	hb.restart()
	p, err := hb.open(prefix, extra)
	if err != nil {
		t.Fatal(err)
	}
	defer func() {
		if p != nil {
			p.close()
		}
	}()
	nkeys := 14
	if s := os.Getenv("HUNT_KEYS"); s != "" {
		fmt.Sscan(s, &nkeys)
	}
	val := 0
	nops := 8 + rng.Intn(10)
	if nkeys > 14 {
		nops *= 3
	}
	crashesLeft := 5
	for op := 0; op < nops && !t.Failed(); op++ {
		before := huntCopy(model)
		after := huntCopy(model)
		var stmts []string
		kind := rng.Intn(10)
		isVacuum := false
		reopen := false
		switch {
		case kind < 6:
			n := 1 + rng.Intn(3)
			for i := 0; i < n; i++ {
				k := 1 + rng.Intn(nkeys)
				val++
				if _, ok := after[k]; !ok {
					if rng.Intn(3) == 0 {
						k2 := k + 1
						if _, ok2 := after[k2]; !ok2 {
							stmts = append(stmts, fmt.Sprintf(`insert into t values (%d,%d,%d),(%d,%d,%d)`, k, val, val, k2, val, val))
							after[k] = huntRow{float64(val), float64(val)}
							after[k2] = huntRow{float64(val), float64(val)}
							continue
						}
					}
					stmts = append(stmts, fmt.Sprintf(`insert into t values (%d,%d,%d)`, k, val, val))
					after[k] = huntRow{float64(val), float64(val)}
				} else if rng.Intn(2) == 0 {
					stmts = append(stmts, fmt.Sprintf(`update t set a=%d where k=%d`, val, k))
					r := after[k]
					r.a = float64(val)
					after[k] = r
				} else if rng.Intn(3) == 0 {
					lo, hi := k, k+rng.Intn(4)
					stmts = append(stmts, fmt.Sprintf(`delete from t where k between %d and %d`, lo, hi))
					for x := lo; x <= hi; x++ {
						delete(after, x)
					}
				} else {
					stmts = append(stmts, fmt.Sprintf(`delete from t where k=%d`, k))
					delete(after, k)
				}
			}
			if len(stmts) > 1 || rng.Intn(2) == 0 {
				stmts = append(append([]string{"begin"}, stmts...), "commit")
			}
		case kind < 9:
			isVacuum = true
			cut := "2200-01-01 00:00:00"
			switch rng.Intn(3) {
			case 0:
				cut = time.Now().UTC().Format("2006-01-02 15:04:05")
			case 1:
				cut = time.Now().UTC().Add(2 * time.Second).Format("2006-01-02 15:04:05")
			}
			stmts = []string{fmt.Sprintf(`select * from s3db_vacuum('t','%s')`, cut)}
		default:
			reopen = true
		}
		crash := crashesLeft > 0 && rng.Intn(2) == 0
		k := -1
		if crash {
			crashesLeft--
			k = rng.Intn(9)
			if isVacuum {
				k = rng.Intn(26)
			}
			hb.dieAfter(k)
		}
		m := hb.mark()
		var opErr error
		if reopen {
			p.close()
			p = nil
			p, opErr = hb.open(prefix, extra)
			logf("op %d: reopen rw crash@%d err=%v", op, k, opErr)
		} else if isVacuum {
			var verr interface{}
			r := p.db.QueryRow(stmts[0])
			opErr = r.Scan(&verr)
			if opErr == nil && verr != nil {
				opErr = fmt.Errorf("vacuum_error: %v", verr)
			}
			logf("op %d: %v crash@%d err=%v", op, stmts, k, opErr)
		} else {
			opErr = p.exec(stmts...)
			logf("op %d: %v crash@%d err=%v", op, stmts, k, opErr)
		}
		died := hb.isDead()
		logf("   requests: %d mutating; died=%v", len(hb.since(m)), died)
		if !died {
			hb.restart()
			if opErr != nil {
				fail("op failed without a crash: %v", opErr)
				return
			}
			model = after
			got := p.contents(t)
			if got != huntModelJSON(model) {
				fail("live contents %s, want %s", got, huntModelJSON(model))
				return
			}
			continue
		}
		// the process died
		first := true
		for died {
			if p != nil {
				p.close()
				p = nil
			}
			hb.restart()
			logf("   current=%v", hb.list(t, prefix+"/s3db-rows/root/current/"))
			ro, err := hb.open(prefix, extra+"readonly,")
			if err != nil {
				fail("read-only recovery open: %v", err)
				return
			}
			got := func() (s string) {
				defer func() {
					if r := recover(); r != nil {
						s = fmt.Sprintf("PANIC %v", r)
					}
				}()
				return ro.contents(t)
			}()
			ro.close()
			wb, wa := huntModelJSON(before), huntModelJSON(after)
			switch {
			case got == wa:
				model = after
			case got == wb && (opErr != nil || reopen || isVacuum):
				model = before
			default:
				fail("after crash, read-only open shows %s; before=%s after=%s (acknowledged=%v)", got, wb, wa, opErr == nil)
				return
			}
			if first {
				first = false
			}
			before, after = model, model
			k2 := -1
			if rng.Intn(2) == 0 {
				k2 = rng.Intn(6)
				hb.dieAfter(k2)
			}
			m := hb.mark()
			p, err = hb.open(prefix, extra)
			died = hb.isDead()
			logf("   recovery rw open crash@%d err=%v requests=%d died=%v", k2, err, len(hb.since(m)), died)
			if died {
				continue
			}
			hb.restart()
			if err != nil {
				fail("read-write recovery open: %v", err)
				return
			}
			got2 := p.contents(t)
			if got2 != got {
				fail("after crash, read-write open shows %s, read-only showed %s", got2, got)
				return
			}
		}
	}
	if t.Failed() {
		return
	}
	if os.Getenv("HUNT_TRACE") != "" {
		t.Logf("seed %d trace:\n  %s", seed, strings.Join(trace, "\n  "))
	}
	// final: vacuum everything and look again from a new process
	var verr interface{}
	if err := p.db.QueryRow(`select * from s3db_vacuum('t','2200-01-01 00:00:00')`).Scan(&verr); err != nil || verr != nil {
		fail("final vacuum: %v %v", err, verr)
		return
	}
	p.close()
	p, err = hb.open(prefix, extra)
	if err != nil {
		fail("final open: %v", err)
		return
	}
	if got := p.contents(t); got != huntModelJSON(model) {
		fail("final contents %s, want %s", got, huntModelJSON(model))
	}
}

func TestHuntExplore(t *testing.T) {
	huntExploreOnly(t)
	hb := newHuntBucket(t)
	before := `[[1,"old-a","old-b"]]`
	after := `[[1,null,"new-b"]]`
	n := 0
	for round := 0; round < 6; round++ {
		for k1 := 0; k1 <= 4; k1++ {
			for k2 := 0; k2 <= 6; k2++ {
				n++
				prefix := fmt.Sprintf("x%d", n)
				cur := prefix + "/s3db-rows/root/current/"
				hb.restart()
				p, err := hb.open(prefix, "")
				if err != nil {
					t.Fatal(err)
				}
				if err := p.exec(`insert into t values (1, 'old-a', 'old-b')`); err != nil {
					t.Fatal(err)
				}
				hb.dieAfter(k1)
				err1 := p.exec(`begin`, `delete from t where k=1`, `insert into t(k,b) values (1,'new-b')`, `commit`)
				p.close()
				hb.restart()
				c1 := hb.list(t, cur)
				// recovery open, read-write, dies at k2
				m := hb.mark()
				hb.dieAfter(k2)
				p, err2 := hb.open(prefix, "")
				var seen string
				if err2 == nil {
					if !hb.isDead() {
						seen = p.contents(t)
					}
					p.close()
				}
				reqs := hb.since(m)
				hb.restart()
				c2 := hb.list(t, cur)
				// later opens
				p, err = hb.open(prefix, "readonly,")
				if err != nil {
					t.Fatalf("k1=%d k2=%d: ro open: %v", k1, k2, err)
				}
				ro := p.contents(t)
				p.close()
				p, err = hb.open(prefix, "")
				if err != nil {
					t.Fatalf("k1=%d k2=%d: rw open: %v", k1, k2, err)
				}
				rw := p.contents(t)
				p.close()
				ok := (ro == before || ro == after) && rw == ro && (err1 != nil || ro == after)
				if !ok || round == 0 {
					t.Logf("k1=%d k2=%d err1=%v err2=%v ok=%v\n  current after crash1=%v\n  recovery reqs=%v seen=%s\n  current after crash2=%v\n  ro=%s rw=%s", k1, k2, err1 != nil, err2 != nil, ok, c1, reqs, seen, c2, ro, rw)
				}
				if len(reqs) < k2 {
					break
				}
			}
		}
	}
}

// TestHuntErrors: one connection; every so often one mutating request is
// refused (the process lives on). A failed transaction is retried on the same
// connection. What the connection shows, and what a new process shows at the
// end, must follow the model.
func TestHuntErrors(t *testing.T) {
	huntExploreOnly(t)
	seeds := 100
	if s := os.Getenv("HUNT_SEEDS"); s != "" {
		fmt.Sscan(s, &seeds)
	}
	base := 0
	if s := os.Getenv("HUNT_BASE"); s != "" {
		fmt.Sscan(s, &base)
	}
	hb := newHuntBucket(t)
	for seed := base; seed < base+seeds && !t.Failed(); seed++ {
		rng := rand.New(rand.NewSource(int64(seed)))
		prefix := fmt.Sprintf("e%d", seed)
		extra := fmt.Sprintf("entries_per_node=%d,", 2+rng.Intn(3))
		var trace []string
		logf := func(f string, a ...interface{}) { trace = append(trace, fmt.Sprintf(f, a...)) }
		fail := func(f string, a ...interface{}) {
			t.Errorf("seed %d: %s\ntrace:\n  %s", seed, fmt.Sprintf(f, a...), strings.Join(trace, "\n  "))
		}
		model := map[int]huntRow{}
		hb.restart()
		p, err := hb.open(prefix, extra)
		if err != nil {
			t.Fatal(err)
		}
		val := 0
		nops := 10 + rng.Intn(10)
		for op := 0; op < nops && !t.Failed(); op++ {
			after := huntCopy(model)
			var stmts []string
			n := 1 + rng.Intn(3)
			for i := 0; i < n; i++ {
				k := 1 + rng.Intn(14)
				val++
				if _, ok := after[k]; !ok {
					stmts = append(stmts, fmt.Sprintf(`insert into t values (%d,%d,%d)`, k, val, val))
					after[k] = huntRow{float64(val), float64(val)}
				} else if rng.Intn(2) == 0 {
					stmts = append(stmts, fmt.Sprintf(`update t set a=%d where k=%d`, val, k))
					r := after[k]
					r.a = float64(val)
					after[k] = r
				} else {
					stmts = append(stmts, fmt.Sprintf(`delete from t where k=%d`, k))
					delete(after, k)
				}
			}
			explicit := len(stmts) > 1 || rng.Intn(2) == 0
			if explicit {
				stmts = append(append([]string{"begin"}, stmts...), "commit")
			}
			for attempt := 0; ; attempt++ {
				if attempt == 0 && rng.Intn(2) == 0 {
					hb.mu.Lock()
					hb.lands = rng.Intn(2) == 0
					hb.mu.Unlock()
					hb.failNth(1 + rng.Intn(7))
				}
				err := p.exec(stmts...)
				what := hb.whatFailed()
				logf("op %d attempt %d: %v refused=%q lands=%v err=%v", op, attempt, stmts, what, hb.lands, err)
				if err == nil {
					break
				}
				if what == "" || attempt > 0 {
					fail("failed without injected error: %v", err)
					break
				}
				if explicit {
					p.db.Exec("rollback")
				}
				got := p.contents(t)
				if got != huntModelJSON(model) && got != huntModelJSON(after) {
					fail("after failed commit connection shows %s, model before %s", got, huntModelJSON(model))
					break
				}
				if got == huntModelJSON(after) && len(after) != len(model) {
					logf("   connection already shows the new contents")
				}
				// bring in whatever reached the bucket, then retry
				if rng.Intn(2) == 0 {
					if err := p.exec(`select s3db_refresh('t')`); err != nil {
						fail("refresh: %v", err)
						break
					}
					got := p.contents(t)
					logf("   refreshed: %s", got)
					if got == huntModelJSON(after) {
						break
					}
					if got != huntModelJSON(model) {
						fail("after refresh connection shows %s, model before %s after %s", got, huntModelJSON(model), huntModelJSON(after))
						break
					}
				}
			}
			if t.Failed() {
				break
			}
			model = after
			if got := p.contents(t); got != huntModelJSON(model) {
				fail("connection shows %s, model %s", got, huntModelJSON(model))
			}
		}
		p.close()
		if t.Failed() {
			return
		}
		p, err = hb.open(prefix, extra)
		if err != nil {
			fail("final open: %v", err)
			return
		}
		if got := p.contents(t); got != huntModelJSON(model) {
			fail("new process shows %s, model %s", got, huntModelJSON(model))
		}
		p.close()
	}
}

// TestHuntTwoWriters: writer A dies at every point of its commit while
// writer B, opened on the same version, lives on, commits, refreshes and
// vacuums. Later opens must show B's transaction and all or nothing of A's.
func TestHuntTwoWriters(t *testing.T) {
	huntExploreOnly(t)
	hb := newHuntBucket(t)
	sub := func(s, name string) string { return strings.ReplaceAll(s, " t ", " "+name+" ") }
	txA := []string{`begin`, `update t set a='A' where k=1`, `delete from t where k=2`, `insert into t values (7,'A','A')`, `commit`}
	txB := []string{`begin`, `update t set a='B' where k=3`, `delete from t where k=4`, `insert into t values (8,'B','B')`, `commit`}
	base := `[1,"x","x"],[2,"x","x"],[3,"x","x"],[4,"x","x"],[5,"x","x"]`
	_ = base
	withA := `[[1,"A","x"],[3,"B","x"],[5,"x","x"],[7,"A","A"],[8,"B","B"]]`
	withoutA := `[[1,"x","x"],[2,"x","x"],[3,"B","x"],[5,"x","x"],[8,"B","B"]]`
	n := 0
	for round := 0; round < 4; round++ {
		for variant := 0; variant < 4; variant++ {
			for k := 0; k <= 8; k++ {
				n++
				prefix := fmt.Sprintf("w%d", n)
				hb.restart()
				p0, err := hb.open(prefix, "entries_per_node=2,")
				if err != nil {
					t.Fatal(err)
				}
				if err := p0.exec(`insert into t values (1,'x','x'),(2,'x','x'),(3,'x','x'),(4,'x','x'),(5,'x','x')`); err != nil {
					t.Fatal(err)
				}
				p0.close()
				a, err := hb.openAs("ta", prefix, "entries_per_node=2,")
				if err != nil {
					t.Fatal(err)
				}
				b, err := hb.openAs("tb", prefix, "entries_per_node=2,")
				if err != nil {
					t.Fatal(err)
				}
				exec := func(p *huntProcess, name string, stmts []string) error {
					for _, s := range stmts {
						if err := p.exec(sub(s, name)); err != nil {
							return err
						}
					}
					return nil
				}
				var errA error
				runA := func() {
					hb.dieAfter(k)
					errA = exec(a, "ta", txA)
					a.close()
					hb.restart()
				}
				var errB error
				switch variant {
				case 0: // A dies, then B commits
					runA()
					errB = exec(b, "tb", txB)
				case 1: // B commits, then A dies
					errB = exec(b, "tb", txB)
					runA()
				case 2: // A dies, B refreshes, commits, vacuums everything
					runA()
					if err := b.exec(`select s3db_refresh('tb')`); err != nil {
						t.Fatalf("refresh: %v", err)
					}
					errB = exec(b, "tb", txB)
					var verr interface{}
					if err := b.db.QueryRow(`select * from s3db_vacuum('tb','2200-01-01 00:00:00')`).Scan(&verr); err != nil {
						t.Fatalf("vacuum: %v %v", err, verr)
					}
					if verr != nil {
						// refused while unmerged versions exist: refresh first
						if err := b.exec(`select s3db_refresh('tb')`); err != nil {
							t.Fatalf("refresh: %v", err)
						}
						if err := b.db.QueryRow(`select * from s3db_vacuum('tb','2200-01-01 00:00:00')`).Scan(&verr); err != nil || verr != nil {
							t.Fatalf("vacuum: %v %v", err, verr)
						}
					}
				case 3: // A dies, B commits, refreshes, commits again
					runA()
					errB = exec(b, "tb", txB)
					if err := b.exec(`select s3db_refresh('tb')`); err != nil {
						t.Fatalf("refresh: %v", err)
					}
					if err := b.exec(`update tb set b='B2' where k=5`, `update tb set b='x' where k=5`); err != nil {
						t.Fatal(err)
					}
				}
				b.close()
				if errB != nil {
					t.Fatalf("B failed: %v", errB)
				}
				for _, mode := range []string{"readonly,", "", "readonly,"} {
					p, err := hb.open(prefix, "entries_per_node=2,"+mode)
					if err != nil {
						t.Fatalf("variant %d k=%d: open %q: %v", variant, k, mode, err)
					}
					got := strings.Join(strings.Fields(p.contents(t)), "")
					p.close()
					if got != withA && !(got == withoutA && errA != nil) {
						t.Errorf("variant %d k=%d (A acknowledged=%v) open %q shows %s", variant, k, errA == nil, mode, got)
					}
				}
			}
		}
	}
}
