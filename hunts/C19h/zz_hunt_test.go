package mod_test

// Hunt for property C19 ("Independent connections can be used from
// different threads"). See NOTES.md at the top of the worktree.
//
// Run with:
//   go1.26.8 test -race -count=1 -v -run 'TestHunt' ./sqlite/

import (
	"context"
	"crypto/ecdsa"
	"crypto/elliptic"
	"crypto/rand"
	"crypto/x509"
	"crypto/x509/pkix"
	"database/sql"
	"encoding/pem"
	"fmt"
	"math/big"
	"net/http"
	"os"
	"path/filepath"
	"strings"
	"sync"
	"testing"
	"time"

	"github.com/jrhy/mast/persist/s3test"
)

// huntMemConn gives one SQLite connection on its own private ":memory:"
// database (nothing is shared with any other connection at the SQLite level).
func huntMemConn(t *testing.T) (*sql.DB, *sql.Conn) {
	t.Helper()
	db, err := sql.Open("sqlite3", ":memory:")
	if err != nil {
		t.Fatal(err)
	}
	db.SetMaxOpenConns(1)
	c, err := db.Conn(context.Background())
	if err != nil {
		t.Fatal(err)
	}
	t.Cleanup(func() { c.Close(); db.Close() })
	return db, c
}

// huntFileConns gives two SQLite connections of one process on the same
// database file (what database/sql's pool does as soon as two goroutines
// use a *sql.DB at the same time).
func huntFileConns(t *testing.T) (c1, c2 *sql.Conn) {
	t.Helper()
	ctx := context.Background()
	db, err := sql.Open("sqlite3", "file:"+filepath.Join(t.TempDir(), "app.sqlite"))
	if err != nil {
		t.Fatal(err)
	}
	c1, err = db.Conn(ctx)
	if err != nil {
		t.Fatal(err)
	}
	c2, err = db.Conn(ctx)
	if err != nil {
		t.Fatal(err)
	}
	t.Cleanup(func() { c1.Close(); c2.Close(); db.Close() })
	return c1, c2
}

func huntCreate(c *sql.Conn, name, bucket, endpoint, prefix, cols string) error {
	_, err := c.ExecContext(context.Background(), fmt.Sprintf(
		`create virtual table %s using s3db (s3_bucket='%s', s3_endpoint='%s', s3_prefix='%s', columns='%s')`,
		name, bucket, endpoint, prefix, cols))
	return err
}

// noCABundle keeps finding 3 (below) out of the way of findings 1 and 2 when
// the environment the tests run in happens to export AWS_CA_BUNDLE.
func noCABundle(t *testing.T) { t.Setenv("AWS_CA_BUNDLE", "") }

// Finding 1a. Two connections, two private databases, two different bucket
// prefixes: each creates "its own s3db table". The only thing the two tables
// have in common is the name the application chose for them. The second
// CREATE fails, because the process-wide registry is keyed by table name
// alone.
func TestHuntSameTableNameOnIndependentConnections(t *testing.T) {
	noCABundle(t)
	cl, bucket, _ := s3test.Client()
	ctx := context.Background()

	dbA, a := huntMemConn(t)
	_, b := huntMemConn(t)

	if err := huntCreate(a, "events", bucket, cl.Endpoint, "tenant-a/events", "id primary key, v"); err != nil {
		t.Fatalf("connection A: create: %v", err)
	}
	if _, err := a.ExecContext(ctx, `insert into events values (1, 'a')`); err != nil {
		t.Fatalf("connection A: insert: %v", err)
	}

	errB := huntCreate(b, "events", bucket, cl.Endpoint, "tenant-b/events", "id primary key, v")
	if errB != nil {
		// show that nothing is wrong with B's statement: the same statement
		// succeeds as soon as connection A is gone
		a.Close()
		dbA.Close()
		errAfter := huntCreate(b, "events", bucket, cl.Endpoint, "tenant-b/events", "id primary key, v")
		t.Fatalf("connection B could not create its own table `events` (own private database, own prefix) "+
			"while connection A had a table of that name: %v; the identical statement after A was closed: err=%v",
			errB, errAfter)
	}
}

// Finding 1b. The same defect in the setting the README describes ("Once
// created, tables remain part of the database and don't need to be
// recreated"): a database file, and two connections of one process on it.
// The second connection cannot use the table at all.
func TestHuntSecondConnectionOnSameDatabaseFile(t *testing.T) {
	noCABundle(t)
	cl, bucket, _ := s3test.Client()
	ctx := context.Background()
	c1, c2 := huntFileConns(t)

	if err := huntCreate(c1, "orders", bucket, cl.Endpoint, "orders", "id primary key, v"); err != nil {
		t.Fatalf("connection 1: create: %v", err)
	}
	if _, err := c1.ExecContext(ctx, `insert into orders values (1, 'x')`); err != nil {
		t.Fatalf("connection 1: insert: %v", err)
	}
	var n int
	if err := c1.QueryRowContext(ctx, `select count(*) from orders`).Scan(&n); err != nil || n != 1 {
		t.Fatalf("connection 1: count=%d err=%v", n, err)
	}
	// the row is committed to the bucket; a second connection that opens the
	// table now must see it
	if err := c2.QueryRowContext(ctx, `select count(*) from orders`).Scan(&n); err != nil {
		t.Fatalf("connection 2 of the same process cannot open the table that connection 1 has open: %v", err)
	}
	if n != 1 {
		t.Fatalf("connection 2: count=%d, want 1", n)
	}
}

// Finding 1c. Same root cause, the other way around: what connection 2 CAN do
// with the name reaches into connection 1's table object. s3db_refresh() on
// connection 2 (the documented way to see other writers' commits) (i) is
// refused because of a transaction that is open on connection 1, and (ii)
// replaces connection 1's tree handle from connection 2's thread while
// connection 1 reads it: a data race (needs -race to be reported).
func TestHuntRefreshOnSecondConnectionTouchesFirst(t *testing.T) {
	noCABundle(t)
	cl, bucket, _ := s3test.Client()
	ctx := context.Background()
	c1, c2 := huntFileConns(t)

	if err := huntCreate(c1, "stock", bucket, cl.Endpoint, "stock", "id primary key, v"); err != nil {
		t.Fatalf("connection 1: create: %v", err)
	}
	if _, err := c1.ExecContext(ctx, `insert into stock values (1, 'x')`); err != nil {
		t.Fatalf("connection 1: insert: %v", err)
	}

	// (ii) first, so that the race detector gets its chance before (i) fails the test
	var wg sync.WaitGroup
	wg.Add(2)
	go func() {
		defer wg.Done()
		for i := 0; i < 20; i++ {
			var n int
			if err := c1.QueryRowContext(ctx, `select count(*) from stock`).Scan(&n); err != nil {
				t.Errorf("connection 1: select: %v", err)
				return
			}
		}
	}()
	go func() {
		defer wg.Done()
		for i := 0; i < 20; i++ {
			if _, err := c2.ExecContext(ctx, `select s3db_refresh('stock')`); err != nil {
				t.Errorf("connection 2: refresh: %v", err)
				return
			}
		}
	}()
	wg.Wait()

	// (i) connection 1 opens a transaction and writes; connection 2 has no
	// transaction open, yet its statement is refused because of connection 1's
	if _, err := c1.ExecContext(ctx, `begin`); err != nil {
		t.Fatal(err)
	}
	if _, err := c1.ExecContext(ctx, `insert into stock values (2, 'y')`); err != nil {
		t.Fatal(err)
	}
	_, err := c2.ExecContext(ctx, `select s3db_refresh('stock')`)
	if _, err2 := c1.ExecContext(ctx, `rollback`); err2 != nil {
		t.Fatal(err2)
	}
	if err != nil && strings.Contains(err.Error(), "transaction") {
		t.Fatalf("connection 2 (no transaction open) was refused because of connection 1's open transaction: %v", err)
	}
}

// Finding 2 (related, different cause). New() registers the name before the
// sqlite layer declares the schema to SQLite; when the declaration fails
// nothing takes the name out again. A CREATE that failed on connection A
// blocks that name for connection B (and for A itself), for the life of
// the process, even after A is closed.
func TestHuntFailedCreateKeepsNameRegistered(t *testing.T) {
	noCABundle(t)
	cl, bucket, _ := s3test.Client()

	dbA, a := huntMemConn(t)
	_, b := huntMemConn(t)

	// s3db's own column parser accepts the name b-c, SQLite's CREATE TABLE does not
	err := huntCreate(a, "ledger", bucket, cl.Endpoint, "ledger-a", "a primary key, b-c")
	if err == nil {
		t.Skip("the malformed CREATE unexpectedly succeeded; this scenario needs it to fail")
	}
	t.Logf("connection A: malformed CREATE failed as it should: %v", err)
	a.Close()
	dbA.Close()

	if err := huntCreate(b, "ledger", bucket, cl.Endpoint, "ledger-b", "a primary key, b"); err != nil {
		t.Fatalf("connection B cannot create its own table `ledger` because a CREATE of that name FAILED earlier "+
			"on connection A (which is closed by now): %v", err)
	}
}

// Finding 3. Every open/refresh of a table with s3_bucket builds a brand-new
// AWS session on http.DefaultClient (open.go getS3). When a custom CA bundle
// is configured (AWS_CA_BUNDLE, or ca_bundle in the shared config: the normal
// setup for a MinIO behind a private CA) building a session WRITES the
// process-wide http.DefaultClient.Transport and the TLS config of the
// transport that is in use. Connections that open or refresh while others
// talk to S3 race on it (needs -race), and the deterministic half is visible
// without threads: opening a table changes a process global.
func TestHuntCustomCABundleOpenWritesProcessGlobalHTTPClient(t *testing.T) {
	// the bucket first, so that the only session built under the CA bundle
	// setting is the one s3db builds
	noCABundle(t)
	cl, bucket, _ := s3test.Client()
	ctx := context.Background()

	saved := http.DefaultClient.Transport
	http.DefaultClient.Transport = nil
	t.Cleanup(func() { http.DefaultClient.Transport = saved })

	t.Setenv("AWS_CA_BUNDLE", huntWritePEM(t))

	const m = 4
	var wg sync.WaitGroup
	for i := 0; i < m; i++ {
		i := i
		_, c := huntMemConn(t)
		wg.Add(1)
		go func() {
			defer wg.Done()
			name := fmt.Sprintf("ca%d", i)
			if err := huntCreate(c, name, bucket, cl.Endpoint, name, "id primary key, v"); err != nil {
				t.Errorf("connection %d: create: %v", i, err)
				return
			}
			for j := 0; j < 5; j++ {
				if _, err := c.ExecContext(ctx, fmt.Sprintf(`insert into %s values (?, ?)`, name), j, j); err != nil {
					t.Errorf("connection %d: insert: %v", i, err)
					return
				}
				if _, err := c.ExecContext(ctx, `select s3db_refresh(?)`, name); err != nil {
					t.Errorf("connection %d: refresh: %v", i, err)
					return
				}
			}
		}()
	}
	wg.Wait()

	if http.DefaultClient.Transport != nil {
		t.Errorf("opening s3db tables replaced the process-wide http.DefaultClient.Transport (was nil, now %T %p): "+
			"every open and refresh writes it while the other connections' requests read it",
			http.DefaultClient.Transport, http.DefaultClient.Transport)
	}
}

func huntWritePEM(t *testing.T) string {
	t.Helper()
	key, err := ecdsa.GenerateKey(elliptic.P256(), rand.Reader)
	if err != nil {
		t.Fatal(err)
	}
	tmpl := &x509.Certificate{
		SerialNumber:          big.NewInt(1),
		Subject:               pkix.Name{CommonName: "private test CA"},
		NotBefore:             time.Now().Add(-time.Hour),
		NotAfter:              time.Now().Add(time.Hour),
		IsCA:                  true,
		KeyUsage:              x509.KeyUsageCertSign,
		BasicConstraintsValid: true,
	}
	der, err := x509.CreateCertificate(rand.Reader, tmpl, tmpl, &key.PublicKey, key)
	if err != nil {
		t.Fatal(err)
	}
	path := filepath.Join(t.TempDir(), "ca.pem")
	if err := os.WriteFile(path, pem.EncodeToMemory(&pem.Block{Type: "CERTIFICATE", Bytes: der}), 0o600); err != nil {
		t.Fatal(err)
	}
	return path
}
