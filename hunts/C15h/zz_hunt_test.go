package mod_test

// Hunt for violations of property C15 (write_time / deadline on s3db_conn).
// Every test in this file is expected to FAIL on the unchanged code.

import (
	"context"
	"database/sql"
	"fmt"
	"testing"

	"github.com/stretchr/testify/assert"
	"github.com/stretchr/testify/require"
)

// huntConn gives ONE SQLite connection (s3db_conn is per connection, and an
// in-memory database is per connection too).
func huntConn(t *testing.T) (*sql.Conn, string, string) {
	db, bucket, endpoint := openDB()
	ctx := context.Background()
	conn, err := db.Conn(ctx)
	require.NoError(t, err)
	t.Cleanup(func() {
		conn.Close()
		db.Close()
	})
	return conn, bucket, endpoint
}

func huntExec(t *testing.T, c *sql.Conn, q string, args ...interface{}) {
	t.Helper()
	_, err := c.ExecContext(context.Background(), q, args...)
	require.NoError(t, err, q)
}

func huntQuery(t *testing.T, c *sql.Conn, q string) string {
	t.Helper()
	rows, err := c.QueryContext(context.Background(), q)
	require.NoError(t, err, q)
	defer rows.Close()
	return mustJSON(mustGetRows(rows))
}

func huntTable(t *testing.T, c *sql.Conn, name, prefix, bucket, endpoint, extra string) {
	t.Helper()
	huntExec(t, c, fmt.Sprintf(`create virtual table "%s" using s3db (
%s
s3_bucket='%s',
s3_endpoint='%s',
s3_prefix='%s',
columns='k primary key, a, b')`, name, extra, bucket, endpoint, prefix))
}

// Defect 1. An UPDATE of s3db_conn that is REFUSED (value not in the accepted
// format) nevertheless wipes the attribute it named, and does not rebuild the
// request context. Outside a transaction the next write silently runs at the
// wall clock instead of the write_time that is still supposed to be set; inside
// a transaction s3db_conn shows NULL while the old write_time keeps being
// applied.
func TestHunt_RefusedConnUpdateWipesWriteTime_Autocommit(t *testing.T) {
	c, bucket, endpoint := huntConn(t)
	huntTable(t, c, "h1", "h1", bucket, endpoint, "")

	huntExec(t, c, `update s3db_conn set write_time='2040-01-01 00:00:00'`)
	require.Equal(t, `[["2040-01-01 00:00:00"]]`, huntQuery(t, c, `select write_time from s3db_conn`))

	// a retry layer passes the time in RFC 3339 by mistake: refused
	_, err := c.ExecContext(context.Background(), `update s3db_conn set write_time='2041-01-01T00:00:00Z'`)
	require.ErrorContains(t, err, "write_time: must be like")

	// the refused statement must not have changed anything
	assert.Equal(t, `[["2040-01-01 00:00:00"]]`, huntQuery(t, c, `select write_time from s3db_conn`),
		"write_time after a REFUSED assignment")

	// observable consequence: the row below is meant to be written at 2040,
	// so a write at 2035 must not be able to change it
	huntExec(t, c, `insert into h1 values (1,'written-at-2040','x')`)
	huntExec(t, c, `update s3db_conn set write_time='2035-01-01 00:00:00'`)
	huntExec(t, c, `update h1 set a='written-at-2035' where k=1`)
	assert.Equal(t, `[[1,"written-at-2040","x"]]`, huntQuery(t, c, `select * from h1`),
		"the INSERT was issued while write_time was (still) 2040; an UPDATE at 2035 must lose")
}

func TestHunt_RefusedConnUpdateWipesWriteTime_InTransaction(t *testing.T) {
	c, bucket, endpoint := huntConn(t)
	huntTable(t, c, "h2", "h2", bucket, endpoint, "")

	huntExec(t, c, `update s3db_conn set write_time='2040-01-01 00:00:00'`)
	huntExec(t, c, `begin`)
	huntExec(t, c, `insert into h2 values (0,'first','x')`)
	_, err := c.ExecContext(context.Background(), `update s3db_conn set write_time='2041-01-01T00:00:00Z'`)
	require.ErrorContains(t, err, "write_time: must be like")
	shown := huntQuery(t, c, `select write_time from s3db_conn`)
	huntExec(t, c, `insert into h2 values (1,'second','x')`)
	huntExec(t, c, `commit`)

	// which write time did the second INSERT really get? probe with 2035
	huntExec(t, c, `update s3db_conn set write_time='2035-01-01 00:00:00'`)
	huntExec(t, c, `update h2 set a='written-at-2035' where k=1`)
	got := huntQuery(t, c, `select a from h2 where k=1`)
	t.Logf("s3db_conn showed write_time=%s; row 1 after an UPDATE at 2035: %s", shown, got)
	applied := `[[null]]` // wall clock (2026): the UPDATE at 2035 wins
	if got == `[["second"]]` {
		applied = `[["2040-01-01 00:00:00"]]` // the UPDATE at 2035 lost
	}
	assert.Equal(t, applied, shown,
		"s3db_conn must show the write_time that is applied to the statements issued now")
}

func TestHunt_RefusedConnUpdateWipesDeadline(t *testing.T) {
	c, bucket, endpoint := huntConn(t)
	huntTable(t, c, "h3", "h3", bucket, endpoint, "")

	// (a user write_time keeps xBegin from rebuilding the context)
	huntExec(t, c, `update s3db_conn set write_time='2030-01-01 00:00:00'`)
	huntExec(t, c, `update s3db_conn set deadline='2000-01-01 00:00:00'`)
	_, err := c.ExecContext(context.Background(), `update s3db_conn set deadline='in a minute'`)
	require.ErrorContains(t, err, "deadline: must be like")
	shown := huntQuery(t, c, `select deadline from s3db_conn`)
	_, err = c.ExecContext(context.Background(), `insert into h3 values (1,'a','b')`)
	t.Logf("s3db_conn shows deadline=%s; INSERT: %v", shown, err)
	assert.Equal(t, `[["2000-01-01 00:00:00"]]`, shown, "deadline after a REFUSED assignment")
	if shown == `[[null]]` {
		assert.NoError(t, err, "s3db_conn shows no deadline, yet the statement is cut off by one")
	}
}

// Defect 2. A statement issued while deadline D is set is aborted long before
// D as soon as ANY later statement of the connection makes S3DBConn rebuild its
// context: ResetContext() cancels the context that the open cursor captured.
// Here the scan is issued under deadline 2100 and dies in 2026 with "context
// canceled" because write_time was set while it was being read.
func huntBigTable(t *testing.T, c *sql.Conn, name, bucket, endpoint string) {
	huntTable(t, c, name, name, bucket, endpoint, "entries_per_node=4,")
	huntExec(t, c, `begin`)
	for i := 0; i < 300; i++ {
		huntExec(t, c, fmt.Sprintf(`insert into "%s" values (?,?,?)`, name), i, i, i)
	}
	huntExec(t, c, `commit`)
	// fresh handle: tree nodes are fetched from the bucket as the scan goes
	huntExec(t, c, `select s3db_refresh(?)`, name)
}

func TestHunt_SettingWriteTimeAbortsStatementIssuedUnderLaterDeadline(t *testing.T) {
	c, bucket, endpoint := huntConn(t)
	huntBigTable(t, c, "h4", bucket, endpoint)

	huntExec(t, c, `update s3db_conn set deadline='2100-01-01 00:00:00'`)
	rows, err := c.QueryContext(context.Background(), `select k from h4`)
	require.NoError(t, err)
	defer rows.Close()
	n := 0
	for rows.Next() {
		n++
		if n == 1 {
			// e.g. replaying each row read into another table at its own time
			huntExec(t, c, `update s3db_conn set write_time='2030-01-01 00:00:00'`)
		}
	}
	assert.NoError(t, rows.Err(), "the SELECT was issued with deadline 2100-01-01")
	assert.Equal(t, 300, n, "rows read")
}

func TestHunt_AutocommitWriteAbortsStatementIssuedUnderLaterDeadline(t *testing.T) {
	c, bucket, endpoint := huntConn(t)
	huntBigTable(t, c, "h5", bucket, endpoint)
	huntTable(t, c, "h5copy", "h5copy", bucket, endpoint, "")

	huntExec(t, c, `update s3db_conn set deadline='2100-01-01 00:00:00'`)
	rows, err := c.QueryContext(context.Background(), `select k from h5`)
	require.NoError(t, err)
	defer rows.Close()
	n := 0
	for rows.Next() {
		n++
		if n == 1 {
			// write_time is not set: xBegin fixes one for the statement and
			// xCommit clears it again, each time through ResetContext()
			huntExec(t, c, `insert into h5copy values (1,'a','b')`)
		}
	}
	assert.NoError(t, rows.Err(), "the SELECT was issued with deadline 2100-01-01")
	assert.Equal(t, 300, n, "rows read")
}

// Defect 3. write_time accepts any year 0000..9999 and shows it back
// unchanged, but the entry time is stored as int64 nanoseconds since 1970
// (1677-09-21 .. 2262-04-11). A time outside wraps around: 1600-01-01 is
// stored as a time in 2184, so after merging a write made "in 1600" undoes a
// write made in 2020.
func TestHunt_WriteTimeOutsideNanosecondRangeReordersHistory(t *testing.T) {
	c, bucket, endpoint := huntConn(t)
	huntTable(t, c, "h6a", "h6", bucket, endpoint, "")
	huntTable(t, c, "h6b", "h6", bucket, endpoint, "")

	huntExec(t, c, `update s3db_conn set write_time='2020-01-01 00:00:00'`)
	huntExec(t, c, `insert into h6a values (1,'written-at-2020','x')`)
	huntExec(t, c, `update s3db_conn set write_time='1600-01-01 00:00:00'`)
	require.Equal(t, `[["1600-01-01 00:00:00"]]`, huntQuery(t, c, `select write_time from s3db_conn`))
	huntExec(t, c, `insert into h6b values (1,'written-at-1600','y')`)
	huntExec(t, c, `update s3db_conn set write_time=null`)

	huntTable(t, c, "h6r", "h6", bucket, endpoint, "readonly,")
	assert.Equal(t, `[[1,"written-at-2020","x"]]`, huntQuery(t, c, `select * from h6r`),
		"after merging, the write at 1600 must not undo the write at 2020")
}
