package mod_test

// Hunt for violations of property C16 ("every committed version is complete
// and well-formed on its own"). See NOTES.md at the top of the repository.

import (
	"bytes"
	"context"
	"database/sql"
	"fmt"
	"io"
	"net/http"
	"net/http/httptest"
	"strings"
	"sync"
	"testing"

	"github.com/aws/aws-sdk-go/aws"
	"github.com/aws/aws-sdk-go/aws/credentials"
	"github.com/aws/aws-sdk-go/aws/session"
	"github.com/aws/aws-sdk-go/service/s3"
	"github.com/johannesboyne/gofakes3"
	"github.com/johannesboyne/gofakes3/backend/s3mem"
	"github.com/stretchr/testify/require"

	"github.com/jrhy/s3db"
)

// huntS3 is an in-memory S3 server (the gofakes3 backend that s3test.Client
// uses too) behind a handler that records requests as they arrive and can
// refuse some of them. s3db talks to it with its own, unmodified AWS client
// (open.go getS3), selected by s3_endpoint.
type huntS3 struct {
	mu     sync.Mutex
	puts   []string // URL paths of the PUTs that were let through
	lists  []string // prefix= of the LIST requests
	refuse func(method, path string) bool
	ts     *httptest.Server
	bucket string
	client *s3.S3
}

func newHuntS3(t *testing.T) *huntS3 {
	h := &huntS3{bucket: "huntbucket"}
	inner := gofakes3.New(s3mem.New()).Server()
	h.ts = httptest.NewServer(http.HandlerFunc(func(w http.ResponseWriter, r *http.Request) {
		var body []byte
		if r.Body != nil {
			body, _ = io.ReadAll(r.Body)
			r.Body = io.NopCloser(bytes.NewReader(body))
		}
		h.mu.Lock()
		refuse := h.refuse
		h.mu.Unlock()
		if refuse != nil && refuse(r.Method, r.URL.Path) {
			// a 403 is not retried by the AWS SDK
			w.WriteHeader(403)
			_, _ = w.Write([]byte(`<?xml version="1.0" encoding="UTF-8"?><Error><Code>AccessDenied</Code><Message>injected fault</Message></Error>`))
			return
		}
		h.mu.Lock()
		if r.Method == "PUT" {
			h.puts = append(h.puts, r.URL.Path)
		}
		if r.Method == "GET" && r.URL.Query().Get("list-type") != "" {
			h.lists = append(h.lists, r.URL.Query().Get("prefix"))
		}
		h.mu.Unlock()
		inner.ServeHTTP(w, r)
	}))
	t.Cleanup(h.ts.Close)
	sess, err := session.NewSession(&aws.Config{
		Credentials:      credentials.NewStaticCredentials("K", "S", ""),
		Endpoint:         aws.String(h.ts.URL),
		Region:           aws.String("ca-west-1"),
		DisableSSL:       aws.Bool(true),
		S3ForcePathStyle: aws.Bool(true),
	})
	require.NoError(t, err)
	h.client = s3.New(sess)
	_, err = h.client.CreateBucket(&s3.CreateBucketInput{Bucket: &h.bucket})
	require.NoError(t, err)
	h.takePuts()
	return h
}

func (h *huntS3) setRefuse(f func(method, path string) bool) {
	h.mu.Lock()
	defer h.mu.Unlock()
	h.refuse = f
}

func (h *huntS3) takePuts() []string {
	h.mu.Lock()
	defer h.mu.Unlock()
	res := h.puts
	h.puts = nil
	return res
}

func (h *huntS3) takeLists() []string {
	h.mu.Lock()
	defer h.mu.Unlock()
	res := h.lists
	h.lists = nil
	return res
}

// allKeys lists the whole bucket with the test's own client.
func (h *huntS3) allKeys(t *testing.T) []string {
	var res []string
	out, err := h.client.ListObjectsV2(&s3.ListObjectsV2Input{Bucket: &h.bucket})
	require.NoError(t, err)
	for _, o := range out.Contents {
		res = append(res, *o.Key)
	}
	return res
}

var huntSeq int

// ---------------------------------------------------------------------------
// Finding 1 (plain SQL, no faults): s3_prefix with an empty, "." or ".."
// segment. Commits are acknowledged, but a fresh process finds no version.
// ---------------------------------------------------------------------------

func huntSQLTable(t *testing.T, h *huntS3, prefix, extra string) (*sql.DB, string) {
	db, err := sql.Open("sqlite3", ":memory:")
	require.NoError(t, err)
	db.SetMaxOpenConns(1)
	t.Cleanup(func() { db.Close() })
	huntSeq++
	name := fmt.Sprintf("hunt_sql_%d", huntSeq)
	_, err = db.Exec(fmt.Sprintf(`create virtual table %s using s3db (
s3_bucket='%s',
s3_endpoint='%s',
s3_prefix='%s',
%s
columns='a primary key, b')`, name, h.bucket, h.ts.URL, prefix, extra))
	require.NoError(t, err)
	return db, name
}

func TestHuntCommittedVersionInvisibleToFreshProcess_PrefixWithEmptySegment(t *testing.T) {
	for _, prefix := range []string{
		"env/prod/orders",  // control: passes
		"env/prod//orders", // e.g. base "env/prod/" + "/" + "orders"
		"orders//",         // only one trailing slash is trimmed
		"./orders",
	} {
		t.Run(prefix, func(t *testing.T) {
			h := newHuntS3(t)

			// the writer: three acknowledged commits
			w, wt := huntSQLTable(t, h, prefix, "")
			for i := 1; i <= 3; i++ {
				_, err := w.Exec(fmt.Sprintf(`insert into %s values (?, ?)`, wt), i, fmt.Sprintf("v%d", i))
				require.NoError(t, err, "commit must be acknowledged")
			}
			require.Equal(t, `[[1,"v1"],[2,"v2"],[3,"v3"]]`,
				mustQueryToJSON(w, fmt.Sprintf(`select * from %s`, wt)),
				"the writer itself sees its rows")
			t.Logf("objects in the bucket after the commits:\n  %s", strings.Join(h.allKeys(t), "\n  "))
			h.takeLists()

			// a fresh process: another connection, no cache, read-only so
			// that it cannot disturb anything
			r, rt := huntSQLTable(t, h, prefix, "readonly,")
			t.Logf("the fresh process listed versions under prefix: %q", h.takeLists())
			require.Equal(t, `[[1,"v1"],[2,"v2"],[3,"v3"]]`,
				mustQueryToJSON(r, fmt.Sprintf(`select * from %s`, rt)),
				"C16: after an acknowledged commit a fresh process must be able to read the whole table from the bucket alone")
		})
	}
}

// ---------------------------------------------------------------------------
// Finding 2 (Go API of the table, storage fault): a Commit that failed is
// retried and acknowledged without anything being written.
// ---------------------------------------------------------------------------

func huntTable(t *testing.T, h *huntS3, prefix string, extra ...string) *s3db.VirtualTable {
	huntSeq++
	args := []string{
		fmt.Sprintf("hunt_vt_%d", huntSeq),
		"columns='a primary key, b'",
		"entries_per_node=4",
		fmt.Sprintf("s3_bucket='%s'", h.bucket),
		fmt.Sprintf("s3_endpoint='%s'", h.ts.URL),
		fmt.Sprintf("s3_prefix='%s'", prefix),
	}
	args = append(args, extra...)
	vt, err := s3db.New(context.Background(), args)
	require.NoError(t, err)
	t.Cleanup(func() { _ = vt.Disconnect() })
	return vt
}

// huntScan reads the whole table through the cursor the SQLite glue uses.
func huntScan(vt *s3db.VirtualTable) ([]int64, error) {
	ctx := context.Background()
	c, err := vt.Open()
	if err != nil {
		return nil, err
	}
	var keys []int64
	if err := c.Filter(ctx, "asc  ", nil); err != nil {
		return nil, err
	}
	for !c.Eof() {
		k, err := c.Column(0)
		if err != nil {
			return keys, err
		}
		keys = append(keys, k.(int64))
		if err := c.Next(ctx); err != nil {
			return keys, err
		}
	}
	return keys, nil
}

func huntInsert(t *testing.T, vt *s3db.VirtualTable, keys ...int64) {
	for _, k := range keys {
		_, err := vt.Insert(context.Background(), map[int]interface{}{0: k, 1: fmt.Sprintf("v%d", k)})
		require.NoError(t, err)
	}
}

func huntSeed(t *testing.T, w *s3db.VirtualTable) []int64 {
	ctx := context.Background()
	var want []int64
	require.NoError(t, w.Begin(ctx))
	for i := int64(1); i <= 20; i++ {
		huntInsert(t, w, i)
		want = append(want, i)
	}
	require.NoError(t, w.Commit(ctx))
	return want
}

// The PUT of the version object fails once; the caller retries Commit.
func TestHuntRetriedCommitAcknowledgedButNothingWritten(t *testing.T) {
	ctx := context.Background()
	h := newHuntS3(t)
	w := huntTable(t, h, "retry")
	want := huntSeed(t, w)
	h.takePuts()

	require.NoError(t, w.Begin(ctx))
	huntInsert(t, w, 101)
	want = append(want, 101)

	h.setRefuse(func(m, p string) bool { return m == "PUT" && strings.Contains(p, "/root/current/") })
	err := w.Commit(ctx)
	require.Error(t, err, "the injected fault must fail the first Commit")
	t.Logf("first Commit: %v", err)
	t.Logf("objects written by the first Commit: %v", h.takePuts())
	h.setRefuse(nil)

	// storage is healthy again; the caller retries
	require.NoError(t, w.Commit(ctx), "retried Commit")
	t.Logf("retried Commit: acknowledged; objects written by it: %v", h.takePuts())

	inMemory, err := huntScan(w)
	require.NoError(t, err)
	require.Equal(t, want, inMemory, "the writer's tree has the row")

	r := huntTable(t, h, "retry", "readonly")
	got, err := huntScan(r)
	require.NoError(t, err)
	require.Equal(t, want, got,
		"C16: after an acknowledged commit a fresh process must read the tree the writer has in memory")
}

// A PUT of a tree node fails once; the caller retries Commit (acknowledged),
// goes on, and the next Commit publishes a version whose root refers to the
// node that was never stored.
func TestHuntCommitAfterFailedCommitPublishesDanglingLink(t *testing.T) {
	ctx := context.Background()
	h := newHuntS3(t)
	w := huntTable(t, h, "dangling")
	want := huntSeed(t, w)
	h.takePuts()

	require.NoError(t, w.Begin(ctx))
	huntInsert(t, w, 101) // goes to the rightmost leaf
	want = append(want, 101)

	h.setRefuse(func(m, p string) bool { return m == "PUT" && strings.Contains(p, "/node/") })
	err := w.Commit(ctx)
	require.Error(t, err, "the injected fault must fail the first Commit")
	t.Logf("first Commit: %v", err)
	h.setRefuse(nil)

	require.NoError(t, w.Commit(ctx), "retried Commit")
	t.Logf("retried Commit: acknowledged; objects written by it: %v", h.takePuts())

	require.NoError(t, w.Begin(ctx))
	huntInsert(t, w, -1) // goes to the leftmost leaf
	want = append([]int64{-1}, want...)
	require.NoError(t, w.Commit(ctx), "next Commit")
	t.Logf("next Commit: acknowledged; objects written by it: %v", h.takePuts())

	// (the writer's own tree is damaged as well: the failed flush replaced
	// its in-memory child pointers by the names of objects it never stored)
	inMemory, err := huntScan(w)
	t.Logf("the writer's own scan after the acknowledged commits: %v, err=%v", inMemory, err)

	r := huntTable(t, h, "dangling", "readonly")
	got, err := huntScan(r)
	require.NoError(t, err,
		"C16: every object a committed version refers to must exist")
	require.Equal(t, want, got)
}
