package mod_test

// Hunt for violations of property C08 ("stored values come back unchanged in
// value and storage class ... a value that cannot be stored is refused with
// an error, never altered").
//
// Run with:
//   go1.26.8 test -count=1 -run 'TestHunt' -v ./sqlite/

import (
	"database/sql"
	"fmt"
	"math"
	"testing"

	"github.com/jrhy/mast/persist/s3test"
	"github.com/jrhy/s3db"
	"github.com/stretchr/testify/require"
)

type huntEnv struct {
	bucket, endpoint string
}

func newHuntEnv() *huntEnv {
	c, b, _ := s3test.Client()
	return &huntEnv{bucket: b, endpoint: c.Endpoint}
}

// open returns a database/sql handle pinned to ONE connection (each new
// connection of ":memory:" would be a different SQLite database).
func (e *huntEnv) open(t *testing.T) *sql.DB {
	db, err := sql.Open("sqlite3", ":memory:")
	require.NoError(t, err)
	db.SetMaxOpenConns(1)
	return db
}

func (e *huntEnv) create(t *testing.T, db *sql.DB, name, prefix, columns string) {
	_, err := db.Exec(fmt.Sprintf(`create virtual table "%s" using s3db (
s3_bucket='%s',
s3_endpoint='%s',
s3_prefix='%s',
columns='%s')`, name, e.bucket, e.endpoint, prefix, columns))
	require.NoError(t, err)
}

// huntDesc renders a scanned value with its storage class and exact bits.
func huntDesc(v interface{}) string {
	switch x := v.(type) {
	case nil:
		return "NULL"
	case int64:
		return fmt.Sprintf("integer:%d", x)
	case float64:
		return fmt.Sprintf("real:%v(bits %016x)", x, math.Float64bits(x))
	case string:
		return fmt.Sprintf("text:%q", x)
	case []byte:
		return fmt.Sprintf("blob:x'%x'", x)
	}
	return fmt.Sprintf("?%T:%v", v, v)
}

// huntRows renders "select k, a from <tbl>" (in key order).
func huntRows(t *testing.T, db *sql.DB, tbl string) string {
	rows, err := db.Query(`select k, a from ` + tbl)
	require.NoError(t, err)
	defer rows.Close()
	out := ""
	for rows.Next() {
		var k, a interface{}
		require.NoError(t, rows.Scan(&k, &a))
		out += "[" + huntDesc(k) + " " + huntDesc(a) + "]"
	}
	require.NoError(t, rows.Err())
	return out
}

// DEFECT 1 (main finding).
//
// An UPDATE that assigns the PRIMARY KEY column a new value is meant to be
// refused ("unimplemented", sqlite/vtable.go Replace()). But when the new key
// value merely *coerces* to the old one -- same low 32 bits, or same number /
// same text after SQLite's sqlite3_value_int/double/text conversion, e.g.
// 1 -> '1', 1 -> 1.0, 1 -> 1.5, 1 -> 4294967297, 0 -> 'abc', 0 -> NULL,
// '7' -> 7 -- the statement is routed to VirtualTable.Update(), which drops
// the new key value on the floor (vtable_common.go: "if i == c.KeyCol
// { continue }") and reports success. The value written to the key column
// is neither stored nor refused: the next read returns the OLD key, with the
// OLD storage class.
func TestHunt_KeyUpdateSilentlyDropped(t *testing.T) {
	cases := []struct {
		name   string
		oldKey interface{}
		update string // statement run against table %s
		want   string // huntDesc of the key that was written
	}{
		{"int_plus_2^32", int64(1), `update %s set k = k + 4294967296`, "integer:4294967297"},
		{"int_to_text", int64(1), `update %s set k = '1' where k = 1`, `text:"1"`},
		{"int_to_real", int64(1), `update %s set k = 1.5 where k = 1`, huntDesc(1.5)},
		{"int_to_unrelated_text", int64(0), `update %s set k = 'abc' where k = 0`, `text:"abc"`},
		{"text_to_int", "7", `update %s set k = 7 where k = '7'`, "integer:7"},
		{"real_to_text", 2.5, `update %s set k = '2.5' where k = 2.5`, `text:"2.5"`},
		{"blob_to_text", []byte("7"), `update %s set k = '7' where k = x'37'`, `text:"7"`},
	}
	for i, c := range cases {
		i, c := i, c
		t.Run(c.name, func(t *testing.T) {
			e := newHuntEnv()
			db := e.open(t)
			defer db.Close()
			tbl := fmt.Sprintf("hunt_ku_%d", i)
			e.create(t, db, tbl, tbl, "k primary key, a")
			_, err := db.Exec(`insert into `+tbl+` values (?, 'payload')`, c.oldKey)
			require.NoError(t, err)

			// Control: a key change that does NOT coerce to the old key is
			// refused with an error, as the property demands for a value
			// that cannot be stored.
			_, err = db.Exec(`update ` + tbl + ` set k = 123456`)
			require.Error(t, err, "control: changing the key is refused")
			before := huntRows(t, db, tbl)

			_, err = db.Exec(fmt.Sprintf(c.update, tbl))
			if err != nil {
				t.Logf("refused with an error (fine): %v", err)
				require.Equal(t, before, huntRows(t, db, tbl), "a refused statement must not change anything")
				return
			}
			// The statement reported success, so the value it wrote to the
			// key column must be what later reads return ...
			want := "[" + c.want + ` text:"payload"]`
			got := huntRows(t, db, tbl)
			if got != want {
				t.Errorf("UPDATE of the key column reported success but the written key was dropped:\n"+
					"  statement: %s\n  before:    %s\n  want:      %s\n  got:       %s",
					fmt.Sprintf(c.update, tbl), before, want, got)
			}
			// ... also after re-open by another process.
			db2 := e.open(t)
			defer db2.Close()
			e.create(t, db2, tbl+"_reopen", tbl, "k primary key, a")
			if got := huntRows(t, db2, tbl+"_reopen"); got != want {
				t.Errorf("after re-open: want %s got %s", want, got)
			}
		})
	}
}

// The same defect applies half of a statement: the non-key assignment is
// stored under the OLD key while the key assignment vanishes, and a
// collision with an existing row goes unnoticed.
func TestHunt_KeyUpdateHalfApplied(t *testing.T) {
	e := newHuntEnv()
	db := e.open(t)
	defer db.Close()
	e.create(t, db, "hunt_kh", "hunt_kh", "k primary key, a")
	_, err := db.Exec(`insert into hunt_kh values (1, 'one'), (4294967297, 'other')`)
	require.NoError(t, err)
	// Moving row 1 onto the existing key 4294967297 must fail (either as
	// "unimplemented" or as a PRIMARY KEY conflict) and change nothing.
	_, err = db.Exec(`update hunt_kh set k = 4294967297, a = 'moved' where k = 1`)
	got := huntRows(t, db, "hunt_kh")
	if err == nil {
		t.Errorf("UPDATE moving a row onto an existing key reported success; table now: %s", got)
	}
	require.Equal(t, `[integer:1 text:"one"][integer:4294967297 text:"other"]`, got,
		"statement result: %v", err)
}

// DEFECT 2 (related to, but not the same as, the known "3 vs 3.0 are
// different keys" item: in this tree 3 and 3.0 ARE one key, and that is the
// problem below).
//
// After DELETE, the deleted row's entry stays in the tree as a marker. An
// INSERT of a numerically equal key of another storage class (3 -> 3.0), or
// of the other zero (0.0 -> -0.0), finds that entry by Key.Order()==0 and
// mast.Insert keeps the OLD key object: the freshly inserted key reads back
// with the old storage class / old bits. A plain SQLite WITHOUT ROWID table
// (the reference) returns what was inserted.
func TestHunt_ReinsertedKeyKeepsOldRepresentation(t *testing.T) {
	e := newHuntEnv()
	db := e.open(t)
	defer db.Close()
	e.create(t, db, "hunt_rk", "hunt_rk", "k primary key, a")
	_, err := db.Exec(`create table hunt_rk_ref(k primary key, a) without rowid`)
	require.NoError(t, err)
	for _, tbl := range []string{"hunt_rk_ref", "hunt_rk"} {
		_, err = db.Exec(`insert into ` + tbl + ` values (3, 'old int'), (0.0, 'old +0.0')`)
		require.NoError(t, err)
		_, err = db.Exec(`delete from ` + tbl)
		require.NoError(t, err)
		require.Equal(t, "", huntRows(t, db, tbl))
		_, err = db.Exec(`insert into `+tbl+` values (3.0, 'new real'), (?, 'new -0.0')`, math.Copysign(0, -1))
		require.NoError(t, err)
	}
	want := "[" + huntDesc(math.Copysign(0, -1)) + ` text:"new -0.0"][` + huntDesc(3.0) + ` text:"new real"]`
	require.Equal(t, want, huntRows(t, db, "hunt_rk_ref"), "reference: plain SQLite table")
	require.Equal(t, want, huntRows(t, db, "hunt_rk"), "s3db table")
}

// DEFECT 3 (minor, Go API only; not reachable through SQLite, whose
// integers are always int64).
//
// NewKey/toSQLiteValue accept a Go `uint` and convert it with int64(x):
// values above MaxInt64 cannot be stored in an SQLite INTEGER, yet they are
// not refused (as uint64 and every other unsupported type are, by panic) but
// silently altered into a negative number.
func TestHunt_NewKeyUintWraps(t *testing.T) {
	if math.MaxUint != math.MaxUint64 {
		t.Skip("needs a 64-bit uint")
	}
	u := uint(math.MaxInt64) + 6 // 9223372036854775813
	var got interface{}
	func() {
		defer func() {
			if r := recover(); r != nil {
				t.Logf("refused (fine): %v", r)
				got = nil
			}
		}()
		got = s3db.NewKey(u).Value()
	}()
	if got == nil {
		return
	}
	require.Equal(t, fmt.Sprint(u), fmt.Sprint(got),
		"NewKey(uint) neither refused nor preserved the value")
}
