package mod_test

// Hunt for property C07 ("key order is a total order that matches SQLite,
// and equal keys are one key"). Every test here FAILS on the unchanged code.
// See ../NOTES.md.

import (
	"database/sql"
	"fmt"
	"math"
	"strings"
	"testing"
)

var huntSeq int

// huntOpen opens a fresh in-memory SQLite database (one connection) with one
// s3db table on a fresh s3test bucket.
func huntOpen(t *testing.T, pragma, columns string, epn int) (*sql.DB, string) {
	t.Helper()
	db, bucket, endpoint := openDB()
	db.SetMaxOpenConns(1)
	if pragma != "" {
		if _, err := db.Exec(pragma); err != nil {
			t.Fatalf("%s: %v", pragma, err)
		}
	}
	huntSeq++
	name := fmt.Sprintf("hunt%d", huntSeq)
	_, err := db.Exec(fmt.Sprintf(`create virtual table %s using s3db (
s3_bucket='%s', s3_endpoint='%s', s3_prefix='%s', entries_per_node=%d,
columns='%s')`, name, bucket, endpoint, name, epn, columns))
	if err != nil {
		t.Fatalf("create: %v", err)
	}
	return db, name
}

// huntDump renders a result set with the Go type of every value, and shows
// the sign of a zero.
func huntDump(t *testing.T, db *sql.DB, q string, args ...interface{}) string {
	t.Helper()
	rows, err := db.Query(q, args...)
	if err != nil {
		return "ERR:" + err.Error()
	}
	defer rows.Close()
	res := ""
	for _, r := range mustGetRows(rows) {
		res += "["
		for i, c := range r {
			if i > 0 {
				res += ","
			}
			v := *(c.(*interface{}))
			if x, ok := v.(float64); ok && x == 0 && math.Signbit(x) {
				res += "float64:-0"
			} else {
				res += fmt.Sprintf("%T:%v", v, v)
			}
		}
		res += "]"
	}
	if err := rows.Err(); err != nil {
		res += " ERR:" + err.Error()
	}
	return res
}

// Finding 1: 0.0 and -0.0 are equal keys (key.go Order, and SQLite) but are
// hashed to different tree levels (key.go Layer hashes the bit pattern).
// Once the tree has more than one level, the uniqueness check of the second
// INSERT does not find the first key, and the write panics inside mast: the
// process crashes instead of reporting a constraint failure.
func TestHuntNegativeZeroIsSameKeyAsZero(t *testing.T) {
	type tc struct {
		epn           int
		first, second string
	}
	for _, c := range []tc{
		{4, "0.0", "-0.0"}, // control: both zeros happen to be on level 0 -> behaves
		{5, "0.0", "-0.0"}, // 0.0 on level 0, -0.0 on level 1
		{5, "-0.0", "0.0"},
		{3, "0.0", "-0.0"}, // 0.0 on level 1, -0.0 on level 0
		{3, "-0.0", "0.0"},
	} {
		c := c
		t.Run(fmt.Sprintf("entries_per_node=%d/%s_then_%s", c.epn, c.first, c.second), func(t *testing.T) {
			db, name := huntOpen(t, "", "k primary key, v", c.epn)
			// ten rows: enough for the tree to have a second level
			_, err := db.Exec("insert into " + name + " values (1,'a'),(2,'a'),(3,'a'),(4,'a'),(5,'a'),(6,'a'),(7,'a'),(8,'a'),(9,'a'),(10,'a')")
			if err != nil {
				t.Fatalf("fill: %v", err)
			}
			if _, err = db.Exec("insert into " + name + " values (" + c.first + ", 'first')"); err != nil {
				t.Fatalf("first insert: %v", err)
			}
			defer func() {
				// The panic crosses SQLite's C frames; the connection is
				// unusable afterwards (its mutex stays locked), so nothing
				// more is done with db here.
				if r := recover(); r != nil {
					t.Fatalf("INSERT of %s while the equal key %s is present PANICKED instead of failing with a constraint error: %v",
						c.second, c.first, r)
				}
			}()
			_, err = db.Exec("insert into " + name + " values (" + c.second + ", 'second')")
			if err == nil {
				t.Fatalf("INSERT of %s succeeded although the equal key %s is present; rows with k = 0: %s",
					c.second, c.first, huntDump(t, db, "select k, v from "+name+" where k = 0"))
			}
			if !strings.Contains(err.Error(), "constraint") {
				t.Fatalf("INSERT of %s: want a constraint failure, got: %v", c.second, err)
			}
			if got, want := huntDump(t, db, "select v from "+name+" where k = 0"), "[string:first]"; got != want {
				t.Fatalf("after the refused INSERT: rows with k = 0: got %s, want %s", got, want)
			}
			db.Close()
		})
	}
}

// Finding 2: a type written after the key column's name is handed to SQLite
// (so SQLite gives the column that affinity) but is not applied to the keys
// s3db stores. SQLite converts the keys of the rows a DELETE has found to the
// column's affinity before it asks the table to delete them, so s3db is asked
// to delete '5' (TEXT) for the row it stores as 5 (INTEGER): the keys are not
// equal, the row stays, DELETE reports success. For the same reason 5 and '5'
// are two rows in such a table, where SQLite has one.
func TestHuntDeclaredKeyTypeDeleteLeavesRows(t *testing.T) {
	db, name := huntOpen(t, "", "k text primary key, v", 4)
	defer db.Close()
	if _, err := db.Exec("create table ref(k text primary key, v) without rowid"); err != nil {
		t.Fatal(err)
	}
	for _, tb := range []string{"ref", name} {
		if _, err := db.Exec("insert into " + tb + " values (5, 'five'), ('abc', 'abc')"); err != nil {
			t.Fatalf("%s: insert: %v", tb, err)
		}
	}
	// equal keys are one key: under the declared type, SQLite refuses '5' after 5
	_, errRef := db.Exec("insert into ref values ('5', 'again')")
	_, errS3 := db.Exec("insert into " + name + " values ('5', 'again')")
	if (errRef == nil) != (errS3 == nil) {
		t.Errorf("INSERT of '5' after 5 into \"k text primary key\": sqlite table: %v; s3db table: %v; s3db rows: %s",
			errRef, errS3, huntDump(t, db, "select k, typeof(k), v from "+name+" order by k"))
	}
	// whatever one expects of the declared type, DELETE FROM t empties a table
	for _, tb := range []string{"ref", name} {
		res, err := db.Exec("delete from " + tb)
		if err != nil {
			t.Fatalf("%s: delete: %v", tb, err)
		}
		n, _ := res.RowsAffected()
		left := huntDump(t, db, "select k, typeof(k), v from "+tb)
		t.Logf("%s: DELETE FROM reported %d row(s); rows left: %q", tb, n, left)
		if left != "" {
			t.Errorf("%s: DELETE FROM (no WHERE) reported success (%d rows) but left rows: %s", tb, n, left)
		}
	}
	// ... and the row cannot be deleted by its key either
	if _, err := db.Exec("delete from " + name + " where k = 5"); err != nil {
		t.Fatal(err)
	}
	if left := huntDump(t, db, "select k, typeof(k), v from "+name); left != "" {
		t.Errorf("after DELETE ... WHERE k = 5: rows left: %s", left)
	}
}

// Finding 3: in a database whose text encoding is UTF-16, SQLite's BINARY
// order of TEXT is memcmp over the UTF-16 bytes; s3db's tree is ordered by the
// UTF-8 bytes. s3db still consumes ORDER BY k and narrows the scan for k < ?,
// so results differ from a SQLite table: wrong order, and rows missing.
func TestHuntUTF16DatabaseTextOrder(t *testing.T) {
	db, name := huntOpen(t, "pragma encoding = 'UTF-16le'", "k primary key, v", 4)
	defer db.Close()
	if enc := huntDump(t, db, "pragma encoding"); enc != "[string:UTF-16le]" {
		t.Skipf("encoding is %s", enc)
	}
	if _, err := db.Exec("create table ref(k primary key, v) without rowid"); err != nil {
		t.Fatal(err)
	}
	for _, tb := range []string{"ref", name} {
		// U+0100 is bytes 00 01 in UTF-16le ('a' is 61 00), C4 80 in UTF-8 ('a' is 61)
		if _, err := db.Exec("insert into " + tb + " values ('a',1),('Ā',2),('b',3),('z',4)"); err != nil {
			t.Fatalf("%s: insert: %v", tb, err)
		}
	}
	for _, q := range []string{
		"select k from %s order by k",
		"select k from %s where k < 'b'",
		"select count(*) from %s where k > 'z'",
	} {
		want := huntDump(t, db, fmt.Sprintf(q, "ref"))
		got := huntDump(t, db, fmt.Sprintf(q, name))
		if got != want {
			t.Errorf("%s\n sqlite table: %s\n s3db table  : %s", q, want, got)
		}
	}
}
