package mod_test

// Hunting property C10 "Vacuum reclaims exactly what the cutoff allows".
// See ../NOTES.md. Three tests, two defects:
//
//  1. TestHuntVacuumSucceedsAfterReadErrorAndLeaksNodes
//     TestHuntVacuumRetryAfterInterruptedDeleteLeaksNodes
//     s3db_vacuum swallows errors while it works out which node objects a
//     superseded version needed, deletes the version object anyway and
//     reports success; the node objects stay in the bucket for good.
//
//  2. TestHuntVacuumCutoffBefore1754KeepsPurgedRowAsTombstone
//     with a cutoff before 1754-08-30 22:43:41 UTC the row-side purge leaves
//     a tombstone entry in the table (and the next INSERT of the key panics).

import (
	"context"
	"database/sql"
	"encoding/json"
	"fmt"
	"io"
	"net/http"
	"net/http/httptest"
	"net/http/httputil"
	"net/url"
	"sort"
	"strings"
	"sync"
	"testing"

	"github.com/aws/aws-sdk-go/aws"
	"github.com/aws/aws-sdk-go/service/s3"
	"github.com/jrhy/mast/persist/s3test"
	"github.com/jrhy/s3db"
	v1proto "github.com/jrhy/s3db/proto/v1"
	"github.com/stretchr/testify/assert"
	"github.com/stretchr/testify/require"
	"google.golang.org/protobuf/proto"
)

type huntEnv struct {
	t        *testing.T
	db       *sql.DB
	c        *s3.S3 // direct client of the in-memory S3 server (never faulted)
	bucket   string
	endpoint string // what tables are given as s3_endpoint
}

func newHuntEnv(t *testing.T) *huntEnv {
	db, err := sql.Open("sqlite3", ":memory:")
	require.NoError(t, err)
	db.SetMaxOpenConns(1)
	c, bucket, _ := s3test.Client()
	return &huntEnv{t, db, c, bucket, c.Endpoint}
}

func (e *huntEnv) table(name, prefix, extra string) {
	stmt := fmt.Sprintf(`create virtual table "%s" using s3db (
s3_bucket='%s',
s3_endpoint='%s',
s3_prefix='%s',
%s
columns='a primary key, b')`, name, e.bucket, e.endpoint, prefix, extra)
	_, err := e.db.Exec(stmt)
	require.NoError(e.t, err)
}

func (e *huntEnv) exec(q string, args ...interface{}) {
	_, err := e.db.Exec(q, args...)
	require.NoError(e.t, err, q)
}

func (e *huntEnv) wt(s string) {
	e.exec(`update s3db_conn set write_time=?`, s)
}

// vacuum returns the JSON of the s3db_vacuum result: `[[null]]` is success.
func (e *huntEnv) vacuum(table, cutoff string) string {
	return mustQueryToJSON(e.db, fmt.Sprintf("select * from s3db_vacuum('%s','%s')", table, cutoff))
}

func (e *huntEnv) objects(prefix string) []string {
	var res []string
	in := &s3.ListObjectsV2Input{Bucket: &e.bucket, Prefix: aws.String(prefix)}
	for {
		out, err := e.c.ListObjectsV2(in)
		require.NoError(e.t, err)
		for _, o := range out.Contents {
			res = append(res, *o.Key)
		}
		if out.IsTruncated != nil && *out.IsTruncated {
			in.ContinuationToken = out.NextContinuationToken
		} else {
			break
		}
	}
	sort.Strings(res)
	return res
}

func (e *huntEnv) getObj(key string) []byte {
	out, err := e.c.GetObject(&s3.GetObjectInput{Bucket: &e.bucket, Key: &key})
	require.NoError(e.t, err)
	defer out.Body.Close()
	b, err := io.ReadAll(out.Body)
	require.NoError(e.t, err)
	return b
}

// huntRoot is what the test needs of a stored version object.
type huntRoot struct {
	Link    *string  `json:"Link"`
	Sources []string `json:"p"`
}

// orphans lists the node objects under prefix that no version object
// (root/current/*, root/merged/*) under prefix reaches.
func (e *huntEnv) orphans(prefix string) []string {
	nodePrefix := prefix + "/s3db-rows/node/"
	have := map[string]bool{}
	for _, k := range e.objects(nodePrefix) {
		have[strings.TrimPrefix(k, nodePrefix)] = true
	}
	seen := map[string]bool{}
	var walk func(l string)
	walk = func(l string) {
		if seen[l] || !have[l] {
			return
		}
		seen[l] = true
		var n v1proto.Node
		require.NoError(e.t, proto.Unmarshal(e.getObj(nodePrefix+l), &n))
		for _, c := range n.Link {
			if c != "" {
				walk(c)
			}
		}
	}
	for _, k := range e.objects(prefix + "/s3db-rows/root/") {
		var r huntRoot
		require.NoError(e.t, json.Unmarshal(e.getObj(k), &r))
		if r.Link != nil {
			walk(*r.Link)
		}
	}
	var res []string
	for l := range have {
		if !seen[l] {
			res = append(res, l)
		}
	}
	sort.Strings(res)
	return res
}

// faultProxy stands between a table's S3 client and the in-memory S3
// server. While armed it answers the selected requests with the given HTTP
// status instead of forwarding them.
type faultProxy struct {
	srv  *httptest.Server
	mu   sync.Mutex
	fail func(method, path string) int // 0: forward
	hits []string
}

func newFaultProxy(t *testing.T, backend string) *faultProxy {
	target, err := url.Parse(backend)
	require.NoError(t, err)
	rp := httputil.NewSingleHostReverseProxy(target)
	p := &faultProxy{}
	p.srv = httptest.NewServer(http.HandlerFunc(func(w http.ResponseWriter, r *http.Request) {
		p.mu.Lock()
		status := 0
		if p.fail != nil {
			status = p.fail(r.Method, r.URL.Path)
		}
		if status != 0 {
			p.hits = append(p.hits, r.Method+" "+r.URL.Path)
		}
		p.mu.Unlock()
		if status != 0 {
			code := "InternalError"
			if status == 403 {
				code = "AccessDenied"
			}
			w.Header().Set("Content-Type", "application/xml")
			w.WriteHeader(status)
			io.WriteString(w, `<?xml version="1.0" encoding="UTF-8"?><Error><Code>`+code+`</Code><Message>injected</Message></Error>`)
			return
		}
		rp.ServeHTTP(w, r)
	}))
	return p
}

func (p *faultProxy) arm(f func(method, path string) int) {
	p.mu.Lock()
	defer p.mu.Unlock()
	p.fail = f
}

// twoVersions makes a table with version V1 (40 rows, 4 per node) and V2
// (every row updated, nothing deleted): V1 is the only superseded version,
// and V2 shares no node with it. Returns V1's object key and V1 itself.
func twoVersions(e *huntEnv, name, prefix string) (v1Key string, v1 huntRoot) {
	t := e.t
	e.table(name, prefix, "entries_per_node=4,")
	e.exec("begin")
	for i := 0; i < 40; i++ {
		e.exec(fmt.Sprintf(`insert into "%s" values(?,?)`, name), i, i)
	}
	e.exec("commit")                                      // V1
	e.exec(fmt.Sprintf(`update "%s" set b=b+1000`, name)) // V2
	merged := e.objects(prefix + "/s3db-rows/root/merged/")
	require.Len(t, merged, 1, "V1 is the only superseded version")
	require.NoError(t, json.Unmarshal(e.getObj(merged[0]), &v1))
	require.NotNil(t, v1.Link)
	require.Empty(t, e.orphans(prefix), "before vacuum every node object belongs to V1 or V2")
	return merged[0], v1
}

// The read of one tree node fails (HTTP 500, also for the SDK's retries)
// while vacuum works out which objects the superseded version V1 needed.
// Vacuum reports success and deletes V1, but leaves the node objects only V1
// needed in the bucket - where no later vacuum can find them, because the
// only thing that named them is gone.
func TestHuntVacuumSucceedsAfterReadErrorAndLeaksNodes(t *testing.T) {
	e := newHuntEnv(t)
	defer e.db.Close()
	proxy := newFaultProxy(t, e.endpoint)
	defer proxy.srv.Close()
	e.endpoint = proxy.srv.URL // tables talk to the store through the proxy

	const prefix = "leak"
	v1Key, v1 := twoVersions(e, "leak", prefix)
	nodesBefore := len(e.objects(prefix + "/s3db-rows/node/"))

	v1RootNode := "/" + prefix + "/s3db-rows/node/" + *v1.Link
	proxy.arm(func(method, path string) int {
		if method == "GET" && strings.HasSuffix(path, v1RootNode) {
			return 500
		}
		return 0
	})
	res := e.vacuum("leak", "2100-01-01 00:00:00")
	proxy.arm(nil)
	require.NotEmpty(t, proxy.hits, "the injected fault was hit")
	t.Logf("vacuum during which %d reads of V1's root node failed -> %s", len(proxy.hits), res)
	if res == `[[null]]` {
		// it said it succeeded: V1 was superseded before the cutoff
		assert.Empty(t, e.objects(v1Key), "V1 is gone after a successful vacuum")
	}

	// In any case: the same vacuum again, with a healthy store, succeeds ...
	require.Equal(t, `[[null]]`, e.vacuum("leak", "2100-01-01 00:00:00"))
	require.Empty(t, e.objects(prefix+"/s3db-rows/root/merged/"), "V1 is gone")
	// ... and then nothing that only V1 needed is left.
	orphans := e.orphans(prefix)
	t.Logf("node objects: %d before, %d after; %d of them belong to no version",
		nodesBefore, len(e.objects(prefix+"/s3db-rows/node/")), len(orphans))
	require.Empty(t, orphans,
		fmt.Sprintf("s3db_vacuum succeeded and deleted the superseded version %s, but %d node objects that only it needed are still in the bucket",
			strings.TrimPrefix(v1Key, prefix+"/s3db-rows/root/merged/"), len(orphans)))
}

// A vacuum is interrupted while it deletes node objects (here the store
// refuses DELETEs; a crash of the process at that point leaves the same
// state) and reports the error. Run again against a healthy store it
// succeeds - but it can no longer walk the half-deleted version, swallows
// that error, deletes the version object and leaves the rest of the
// version's node objects in the bucket for good.
func TestHuntVacuumRetryAfterInterruptedDeleteLeaksNodes(t *testing.T) {
	e := newHuntEnv(t)
	defer e.db.Close()
	proxy := newFaultProxy(t, e.endpoint)
	defer proxy.srv.Close()
	e.endpoint = proxy.srv.URL

	const prefix = "leak2"
	v1Key, v1 := twoVersions(e, "leak2", prefix)
	v1RootNodeKey := prefix + "/s3db-rows/node/" + *v1.Link

	// The store refuses (403, which the SDK does not retry) to delete any
	// node object except V1's root node. Vacuum deletes in map order and
	// stops at the first error, so repeat until the attempt that happens to
	// begin with V1's root node.
	proxy.arm(func(method, path string) int {
		if method == "DELETE" && strings.Contains(path, "/s3db-rows/node/") && !strings.HasSuffix(path, "/"+v1RootNodeKey) {
			return 403
		}
		return 0
	})
	attempts := 0
	for attempts < 5000 && len(e.objects(v1RootNodeKey)) == 1 {
		attempts++
		res := e.vacuum("leak2", "2100-01-01 00:00:00")
		require.NotEqual(t, `[[null]]`, res, "an interrupted vacuum reports its error")
	}
	proxy.arm(nil)
	require.Empty(t, e.objects(v1RootNodeKey), "an interrupted vacuum deleted V1's root node and stopped")
	require.Len(t, e.objects(v1Key), 1, "V1 is still there after the interrupted vacuums")
	t.Logf("%d interrupted vacuums, each reported an error", attempts)

	// healthy store from here on
	require.Equal(t, `[[null]]`, e.vacuum("leak2", "2100-01-01 00:00:00"), "vacuum run again succeeds")
	require.Empty(t, e.objects(prefix+"/s3db-rows/root/merged/"), "V1 is gone")
	require.Equal(t, `[[null]]`, e.vacuum("leak2", "2100-01-01 00:00:00"))
	orphans := e.orphans(prefix)
	require.Empty(t, orphans,
		fmt.Sprintf("s3db_vacuum succeeded and deleted the superseded version, but %d node objects that only it needed stay in the bucket", len(orphans)))
}

// No fault injection. Vacuum purges a deleted row by tombstoning it "at
// time.Time{}" and then removing the tombstones older than the cutoff.
// time.Time{}.UnixNano() is -6795364578871345152, i.e. 1754-08-30
// 22:43:41.128654848 UTC, so with an earlier cutoff the tombstone is not
// older than the cutoff and stays: the row deleted before the cutoff still
// occupies the table, as an entry without a row.
func TestHuntVacuumCutoffBefore1754KeepsPurgedRowAsTombstone(t *testing.T) {
	e := newHuntEnv(t)
	defer e.db.Close()
	e.table("anc", "anc", "")
	e.wt("1700-01-01 00:00:00")
	e.exec(`insert into anc values(1,'one')`)
	e.exec(`insert into anc values(2,'two')`)
	e.wt("1700-01-02 00:00:00")
	e.exec(`delete from anc where a=1`)
	require.EqualValues(t, 2, s3db.GetTable("anc").Tree.Root.Size(), "row 2 and the delete marker of row 1")

	// cutoff after the delete: the delete marker is to be purged
	require.Equal(t, `[[null]]`, e.vacuum("anc", "1750-01-01 00:00:00"), "vacuum succeeds")
	require.Equal(t, `[[2,"two"]]`, mustQueryToJSON(e.db, `select * from anc`))

	root := s3db.GetTable("anc").Tree.Root
	tombstoned, err := root.IsTombstoned(context.Background(), s3db.NewKey(int64(1)))
	require.NoError(t, err)
	assert.False(t, tombstoned, "key 1, deleted before the cutoff, is still in the tree as a tombstone after a successful vacuum")
	assert.EqualValues(t, 1, root.Size(), "entries in the table after vacuum: only row 2 should occupy it")

	// consequence: the key cannot be inserted again
	e.wt("1700-01-03 00:00:00")
	var insertErr interface{}
	func() {
		defer func() {
			if r := recover(); r != nil {
				insertErr = fmt.Sprintf("panic: %v", r)
			}
		}()
		if _, err := e.db.Exec(`insert into anc values(1,'again')`); err != nil {
			insertErr = err
		}
	}()
	assert.Nil(t, insertErr, "INSERT of the vacuumed key")
}
