package mod_test

// Hunt for violations of property C05 ("transactions are atomic and isolated:
// rollback restores, nothing leaks early"). See NOTES.md at the top of the
// repository for the analysis. Every test in this file FAILS on the unchanged
// code.
//
// The storage errors are injected by an HTTP reverse proxy placed between the
// extension (s3_endpoint=proxy) and the in-memory S3 server the existing tests
// use (s3test.Client()); no non-test code is involved.

import (
	"context"
	"database/sql"
	"encoding/json"
	"fmt"
	"net/http"
	"net/http/httptest"
	"net/http/httputil"
	"net/url"
	"sort"
	"strings"
	"sync"
	"testing"

	"github.com/aws/aws-sdk-go/service/s3"
	"github.com/jrhy/mast/persist/s3test"
	"github.com/stretchr/testify/assert"
	"github.com/stretchr/testify/require"
)

// faultProxy forwards S3 requests and can fail the n-th request that matches
// a predicate the way an object store would refuse it (403 AccessDenied is not
// retried by the AWS SDK, so exactly one request fails).
type faultProxy struct {
	mu       sync.Mutex
	rp       *httputil.ReverseProxy
	srv      *httptest.Server
	failNth  int // fail the n-th matching request from now (1-based); 0 = off
	match    func(r *http.Request) bool
	failedAt []string
}

func newFaultProxy(backend string) *faultProxy {
	u, err := url.Parse(backend)
	if err != nil {
		panic(err)
	}
	p := &faultProxy{rp: httputil.NewSingleHostReverseProxy(u)}
	p.srv = httptest.NewServer(http.HandlerFunc(p.serve))
	return p
}

func (p *faultProxy) serve(w http.ResponseWriter, r *http.Request) {
	p.mu.Lock()
	fail := false
	if p.failNth > 0 && p.match != nil && p.match(r) {
		p.failNth--
		if p.failNth == 0 {
			fail = true
			p.failedAt = append(p.failedAt, r.Method+" "+r.URL.Path)
		}
	}
	p.mu.Unlock()
	if fail {
		w.Header().Set("Content-Type", "application/xml")
		w.WriteHeader(http.StatusForbidden)
		fmt.Fprint(w, `<?xml version="1.0" encoding="UTF-8"?><Error><Code>AccessDenied</Code><Message>injected</Message></Error>`)
		return
	}
	p.rp.ServeHTTP(w, r)
}

// arm makes the n-th request matching match fail.
func (p *faultProxy) arm(n int, match func(r *http.Request) bool) {
	p.mu.Lock()
	defer p.mu.Unlock()
	p.failNth = n
	p.match = match
	p.failedAt = nil
}

// disarm stops injecting and reports the requests that were failed.
func (p *faultProxy) disarm() []string {
	p.mu.Lock()
	defer p.mu.Unlock()
	p.failNth = 0
	return p.failedAt
}

func isNodeGet(r *http.Request) bool {
	return r.Method == http.MethodGet && strings.Contains(r.URL.Path, "/node/")
}

// huntConn opens a private in-memory SQLite database and pins one connection
// (an s3db virtual table lives in the connection that created it).
func huntConn(t *testing.T) (*sql.DB, *sql.Conn) {
	t.Helper()
	db, err := sql.Open("sqlite3", ":memory:")
	require.NoError(t, err)
	db.SetMaxOpenConns(1)
	c, err := db.Conn(context.Background())
	require.NoError(t, err)
	return db, c
}

func huntExec(t *testing.T, c *sql.Conn, q string, args ...interface{}) {
	t.Helper()
	_, err := c.ExecContext(context.Background(), q, args...)
	require.NoError(t, err, q)
}

func huntTryExec(c *sql.Conn, q string, args ...interface{}) error {
	_, err := c.ExecContext(context.Background(), q, args...)
	return err
}

func huntQuery(t *testing.T, c *sql.Conn, q string, args ...interface{}) string {
	t.Helper()
	rows, err := c.QueryContext(context.Background(), q, args...)
	require.NoError(t, err, q)
	defer rows.Close()
	got := mustGetRows(rows)
	if got == nil {
		got = [][]interface{}{}
	}
	b, err := json.Marshal(got)
	require.NoError(t, err)
	return string(b)
}

// huntCreate declares an s3db table "k primary key, v". Table names are
// process-global in s3db, so every simultaneously open table gets its own.
func huntCreate(t *testing.T, c *sql.Conn, name, bucket, endpoint, prefix, extra string) {
	t.Helper()
	huntExec(t, c, fmt.Sprintf(`create virtual table %s using s3db (
s3_bucket='%s',
s3_endpoint='%s',
s3_prefix='%s',
%s
columns='k primary key, v')`, name, bucket, endpoint, prefix, extra))
}

func huntListKeys(t *testing.T, s3c *s3.S3, bucket, prefix string) []string {
	t.Helper()
	var res []string
	err := s3c.ListObjectsV2Pages(&s3.ListObjectsV2Input{Bucket: &bucket, Prefix: &prefix},
		func(out *s3.ListObjectsV2Output, last bool) bool {
			for _, o := range out.Contents {
				res = append(res, *o.Key)
			}
			return true
		})
	require.NoError(t, err)
	sort.Strings(res)
	return res
}

// observe summarises a table "k primary key, v" in one short line. The
// duplicates are counted here rather than with GROUP BY: SQLite trusts the
// declared primary key and the key order the table claims to deliver.
func observe(t *testing.T, c *sql.Conn, table string) string {
	t.Helper()
	rows, err := c.QueryContext(context.Background(), `select k from `+table)
	require.NoError(t, err)
	defer rows.Close()
	n := 0
	seen := map[int64]int{}
	var dups []int64
	for rows.Next() {
		var k int64
		require.NoError(t, rows.Scan(&k))
		n++
		seen[k]++
		if seen[k] == 2 {
			dups = append(dups, k)
		}
	}
	require.NoError(t, rows.Err())
	return fmt.Sprintf("rows=%d rows of the failed INSERT=%s keys listed more than once=%v",
		n, huntQuery(t, c, `select k, v from `+table+` where v='second'`), dups)
}

// Defect 1.
//
// BEGIN; INSERT (ok); INSERT (one S3 GET fails: the statement returns an
// error); SELECT; COMMIT.
//
// Expected by C05: the failed statement has no effect; the connection sees
// the rows before BEGIN plus the first INSERT, and COMMIT publishes exactly
// that. Actual: the row of the FAILED statement is in the table, a whole
// subtree of unrelated rows is listed twice, and COMMIT publishes that tree to
// every other opener.
func TestHuntC05FailedInsertInTransactionIsKeptAndDuplicatesRows(t *testing.T) {
	s3c, bucket, _ := s3test.Client()
	proxy := newFaultProxy(s3c.Endpoint)
	defer proxy.srv.Close()
	const opts = "entries_per_node=4," // a small node size gives a multi-level tree with 60 rows

	// 60 committed rows, written by a first connection that then goes away
	{
		db, c := huntConn(t)
		huntCreate(t, c, "t_seed", bucket, proxy.srv.URL, "d1", opts)
		for i := 1; i <= 60; i++ {
			huntExec(t, c, `insert into t_seed values (?, ?)`, i*10, fmt.Sprintf("v%d", i))
		}
		require.NoError(t, c.Close())
		require.NoError(t, db.Close())
	}

	// Which new key needs a child node split depends on the key's hash; try
	// candidates (each on a fresh connection, nothing is committed) until the
	// injected error lands inside the tree insert.
	for key := 1001; key <= 1100; key++ {
		db, c := huntConn(t)
		name := fmt.Sprintf("t_%d", key)
		huntCreate(t, c, name, bucket, proxy.srv.URL, "d1", opts)

		huntExec(t, c, `begin`)
		huntExec(t, c, `insert into `+name+` values (5, 'first')`)
		want := observe(t, c, name) // 60 committed rows + the first INSERT

		proxy.arm(1, isNodeGet)
		err := huntTryExec(c, `insert into `+name+` values (?, 'second')`, key)
		failed := proxy.disarm()
		if err == nil || len(failed) == 0 || !strings.Contains(err.Error(), "set:") {
			// this key needed no node from S3 (or failed before touching
			// the tree): not the case under test
			huntExec(t, c, `rollback`)
			c.Close()
			db.Close()
			continue
		}
		t.Logf("INSERT of key %d failed as intended: %v (failed request: %v)", key, err, failed)
		require.Equal(t, `rows=61 rows of the failed INSERT=[] keys listed more than once=[]`, want)

		// 1. inside the transaction, the failed statement must have no effect
		assert.Equal(t, want, observe(t, c, name),
			"inside the transaction, after a FAILED single-row INSERT")

		// 2. COMMIT publishes the transaction's effects: the first INSERT only
		huntExec(t, c, `commit`)
		require.NoError(t, c.Close())
		require.NoError(t, db.Close())

		db2, c2 := huntConn(t)
		defer db2.Close()
		defer c2.Close()
		huntCreate(t, c2, "t_other", bucket, proxy.srv.URL, "d1", opts)
		assert.Equal(t, want, observe(t, c2, "t_other"),
			"what another opener sees after COMMIT")
		return
	}
	t.Fatal("no candidate key triggered a node load inside the insert; adjust the candidates")
}

// Defect 2.
//
// One transaction writes two s3db tables; the storage commit of the second
// table fails. COMMIT returns an error and SQLite rolls the transaction back,
// but the first table's version is already in the bucket and its handle has
// forgotten the pre-transaction tree, so the rollback neither restores the
// rows nor leaves the bucket without a new version: half of the transaction
// is published.
func TestHuntC05FailingCommitWithTwoTablesPublishesOneOfThem(t *testing.T) {
	s3c, bucket, _ := s3test.Client()
	proxy := newFaultProxy(s3c.Endpoint)
	defer proxy.srv.Close()

	db, c := huntConn(t)
	defer db.Close()
	defer c.Close()
	huntCreate(t, c, "ta", bucket, proxy.srv.URL, "d2a", "")
	huntCreate(t, c, "tb", bucket, proxy.srv.URL, "d2b", "")
	huntExec(t, c, `insert into ta values (1, 'a1')`)
	huntExec(t, c, `insert into tb values (1, 'b1')`)

	beforeA := huntQuery(t, c, `select * from ta`)
	beforeB := huntQuery(t, c, `select * from tb`)
	versionsA := huntListKeys(t, s3c, bucket, "d2a/s3db-rows/root/current/")
	versionsB := huntListKeys(t, s3c, bucket, "d2b/s3db-rows/root/current/")

	huntExec(t, c, `begin`)
	huntExec(t, c, `insert into ta values (2, 'a2')`)
	huntExec(t, c, `insert into tb values (2, 'b2')`)

	// fail the first write of whichever table is committed second
	firstTable := ""
	proxy.arm(1, func(r *http.Request) bool {
		if r.Method != http.MethodPut {
			return false
		}
		table := "d2a"
		if strings.Contains(r.URL.Path, "/d2b/") {
			table = "d2b"
		}
		if firstTable == "" {
			firstTable = table
		}
		return table != firstTable
	})
	err := huntTryExec(c, `commit`)
	failed := proxy.disarm()
	require.Error(t, err, "COMMIT must report the storage error")
	require.Len(t, failed, 1)
	t.Logf("COMMIT failed as intended: %v (failed request: %v)", err, failed)

	// the failing commit forced a rollback: the connection is out of the
	// transaction ...
	require.Error(t, huntTryExec(c, `rollback`), "no transaction should be active after the failed COMMIT")

	// ... and must see exactly the rows visible before BEGIN, in both tables
	assert.Equal(t, beforeA, huntQuery(t, c, `select * from ta`), "rows of ta after the failed COMMIT")
	assert.Equal(t, beforeB, huntQuery(t, c, `select * from tb`), "rows of tb after the failed COMMIT")

	// ... and the bucket must hold no new version
	assert.Equal(t, versionsA, huntListKeys(t, s3c, bucket, "d2a/s3db-rows/root/current/"), "versions of ta in the bucket")
	assert.Equal(t, versionsB, huntListKeys(t, s3c, bucket, "d2b/s3db-rows/root/current/"), "versions of tb in the bucket")

	// ... so another opener sees none of the transaction
	db2, c2 := huntConn(t)
	defer db2.Close()
	defer c2.Close()
	huntCreate(t, c2, "ta_other", bucket, proxy.srv.URL, "d2a", "")
	huntCreate(t, c2, "tb_other", bucket, proxy.srv.URL, "d2b", "")
	assert.Equal(t, beforeA, huntQuery(t, c2, `select * from ta_other`), "rows of ta seen by another opener")
	assert.Equal(t, beforeB, huntQuery(t, c2, `select * from tb_other`), "rows of tb seen by another opener")
}

// Defect 3 (same root as the known "statement that fails part-way keeps its
// earlier rows": the module registers no xSavepoint/xRollbackTo; listed
// because the user-visible form is a ROLLBACK that reports success and
// restores nothing).
//
// BEGIN; INSERT 2; SAVEPOINT s1; INSERT 3 (s3db and ordinary table);
// ROLLBACK TO s1; COMMIT. The ordinary table loses row 3, the s3db table
// keeps it and COMMIT publishes it.
func TestHuntC05RollbackToSavepointRestoresNothing(t *testing.T) {
	s3c, bucket, _ := s3test.Client()
	db, c := huntConn(t)
	defer db.Close()
	defer c.Close()
	huntCreate(t, c, "t_sp", bucket, s3c.Endpoint, "d3", "")
	huntExec(t, c, `create table r(k primary key, v) without rowid`)
	for _, tbl := range []string{"t_sp", "r"} {
		huntExec(t, c, `insert into `+tbl+` values (1, 'one')`)
	}
	huntExec(t, c, `begin`)
	for _, tbl := range []string{"t_sp", "r"} {
		huntExec(t, c, `insert into `+tbl+` values (2, 'two')`)
	}
	huntExec(t, c, `savepoint s1`)
	for _, tbl := range []string{"t_sp", "r"} {
		huntExec(t, c, `insert into `+tbl+` values (3, 'three')`)
	}
	huntExec(t, c, `rollback to s1`) // reports success
	want := `[[1,"one"],[2,"two"]]`
	require.Equal(t, want, huntQuery(t, c, `select * from r`), "ordinary table after ROLLBACK TO")
	assert.Equal(t, want, huntQuery(t, c, `select * from t_sp`), "s3db table after ROLLBACK TO")
	huntExec(t, c, `commit`)

	db2, c2 := huntConn(t)
	defer db2.Close()
	defer c2.Close()
	huntCreate(t, c2, "t_sp_other", bucket, s3c.Endpoint, "d3", "")
	assert.Equal(t, want, huntQuery(t, c2, `select * from t_sp_other`), "s3db table seen by another opener after COMMIT")
}
