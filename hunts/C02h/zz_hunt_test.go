package mod_test

import (
	"database/sql"
	"fmt"
	"math/rand"
	"os"
	"sync"
	"testing"

	"github.com/stretchr/testify/assert"
	"github.com/stretchr/testify/require"
)

type huntEnv struct {
	t        *testing.T
	db       *sql.DB
	bucket   string
	endpoint string
	prefix   string
	cols     string
	extra    string
}

func newHuntEnv(t *testing.T, cols string) *huntEnv {
	db, b, e := openDB()
	db.SetMaxOpenConns(1)
	return &huntEnv{t: t, db: db, bucket: b, endpoint: e, prefix: t.Name(), cols: cols}
}

func (h *huntEnv) open(name string) {
	_, err := h.db.Exec(fmt.Sprintf(`create virtual table "%s" using s3db (
s3_bucket='%s',
s3_endpoint='%s',
s3_prefix='%s',
%s
columns='%s')`, name, h.bucket, h.endpoint, h.prefix, h.extra, h.cols))
	require.NoError(h.t, err)
}

func (h *huntEnv) at(wt string) {
	_, err := h.db.Exec(`update s3db_conn set write_time=?`, wt)
	require.NoError(h.t, err)
}

func (h *huntEnv) exec(q string, args ...interface{}) {
	_, err := h.db.Exec(q, args...)
	require.NoError(h.t, err, q)
}

func (h *huntEnv) refresh(name string) {
	h.exec(fmt.Sprintf(`select s3db_refresh('%s')`, name))
}

func (h *huntEnv) q(q string) string {
	return mustQueryToJSON(h.db, q)
}

func TestHuntShapes(t *testing.T) {
	huntExploreOnly(t)
	shapes := []string{
		`update w1 set a='z'`,
		`update w1 set a='z' where b='b1'`,
		`update w1 set a='z' where k=1`,
		`update w1 set a='z' where k>=1`,
		`update w1 set a=b||'z'`,
		`update w1 set (a) = (select 'z')`,
		`update w1 set a='z' from (select 1)`,
		`update w1 set a=o.v from other o where o.k = w1.k`,
		`update or replace w1 set a='z'`,
		`update or ignore w1 set a='z'`,
		`update w1 set a='z' where k in (select k from w1)`,
		`update w1 set a='z' where k=1 or k=2`,
		`update w1 set k=k, a='z'`,
		`update w1 set k=1, a='z'`,
		`with x(v) as (select 'z') update w1 set a=(select v from x)`,
		`update w1 set a='z' where k in (1,2,3)`,
		`update w1 set a='z' where exists (select 1 from w1 x where x.k=w1.k)`,
		`update w1 as q set a='z' where q.c is not null`,
		`update w1 set a='z' where rowid is null or 1`,
	}
	for i, shape := range shapes {
		t.Run(fmt.Sprint(i), func(t *testing.T) {
			h := newHuntEnv(t, "k primary key, a, b, c")
			defer h.db.Close()
			h.exec(`create table other(k primary key, v)`)
			h.exec(`insert into other values (1,'z')`)
			h.open("w1")
			h.open("w2")
			h.at("2020-01-01 00:00:01")
			h.exec(`insert into w1 values (1,'a1','b1','c1')`)
			h.refresh("w2")
			h.at("2020-01-01 00:00:05")
			h.exec(`update w2 set b='X', c='Y' where k=1`)
			h.at("2020-01-01 00:00:09")
			_, err := h.db.Exec(shape)
			if err != nil {
				t.Logf("shape %q: error %v", shape, err)
				return
			}
			h.refresh("w1")
			got := h.q(`select * from w1`)
			if got != `[[1,"z","X","Y"]]` && got != `[[1,"b1z","X","Y"]]` {
				t.Errorf("shape %q: got %s", shape, got)
			}
		})
	}
}

type hStmt struct {
	kind string // I U D
	key  int
	cols map[string]int // assigned columns
	t    int
}

func hModel(stmts []hStmt, key int, colNames []string) (bool, map[string]interface{}) {
	st := -1
	live := false
	for _, s := range stmts {
		if s.key != key {
			continue
		}
		if (s.kind == "I" || s.kind == "D") && s.t > st {
			st = s.t
			live = s.kind == "I"
		}
	}
	if !live {
		return false, nil
	}
	res := map[string]interface{}{}
	for _, c := range colNames {
		bt := -1
		for _, s := range stmts {
			if s.key != key || s.kind == "D" || s.t < st {
				continue
			}
			v, ok := s.cols[c]
			if s.kind == "I" {
				if !ok {
					if s.t > bt {
						bt = s.t
						res[c] = nil
					}
					continue
				}
			}
			if ok && s.t > bt {
				bt = s.t
				res[c] = int64(v)
			}
		}
	}
	return true, res
}

func hModelTable(stmts []hStmt, nKeys int, colNames []string) string {
	var rows [][]interface{}
	for k := 0; k < nKeys; k++ {
		live, cols := hModel(stmts, k, colNames)
		if !live {
			continue
		}
		r := []interface{}{int64(k)}
		for _, c := range colNames {
			r = append(r, cols[c])
		}
		rows = append(rows, r)
	}
	if rows == nil {
		return "null"
	}
	return mustJSON(rows)
}

func hTime(i int) string {
	return fmt.Sprintf("2020-01-01 %02d:%02d:%02d", i/3600, (i/60)%60, i%60)
}

func hRandomRun(t *testing.T, seed int64, epn, nKeys, nWriters, nStmts int, monotonic bool, refreshEvery int) {
	rng := rand.New(rand.NewSource(seed))
	h := newHuntEnv(t, "k primary key, a, b, c")
	h.extra = fmt.Sprintf("entries_per_node=%d,", epn)
	defer h.db.Close()
	colNames := []string{"a", "b", "c"}
	writers := make([]string, nWriters)
	seen := make([][]hStmt, nWriters)
	for i := range writers {
		writers[i] = fmt.Sprintf("w%d_%d", seed, i)
		h.open(writers[i])
	}
	var all []hStmt
	times := rng.Perm(nStmts)
	var log []string
	fail := func(f string, a ...interface{}) {
		for _, l := range log {
			t.Log(l)
		}
		t.Fatalf(f, a...)
	}
	for i := 0; i < nStmts; i++ {
		w := rng.Intn(nWriters)
		if rng.Intn(refreshEvery) == 0 {
			h.refresh(writers[w])
			seen[w] = append([]hStmt{}, all...)
			log = append(log, fmt.Sprintf("refresh %d", w))
			got := h.q(fmt.Sprintf(`select * from "%s"`, writers[w]))
			want := hModelTable(seen[w], nKeys, colNames)
			if got != want {
				fail("seed %d after refresh writer %d: got %s want %s", seed, w, got, want)
			}
		}
		key := rng.Intn(nKeys)
		tm := times[i] + 1
		if monotonic {
			tm = i + 1
		}
		live, _ := hModel(seen[w], key, colNames)
		s := hStmt{key: key, t: tm, cols: map[string]int{}}
		h.at(hTime(tm))
		var q string
		switch r := rng.Intn(10); {
		case !live:
			s.kind = "I"
			for _, c := range colNames {
				if rng.Intn(3) > 0 {
					s.cols[c] = tm*10 + 1
				}
			}
			cl, vl := "k", fmt.Sprint(key)
			for _, c := range colNames {
				if v, ok := s.cols[c]; ok {
					cl += "," + c
					vl += "," + fmt.Sprint(v)
				}
			}
			q = fmt.Sprintf(`insert into "%s"(%s) values (%s)`, writers[w], cl, vl)
		case r < 3:
			s.kind = "D"
			q = fmt.Sprintf(`delete from "%s" where k=%d`, writers[w], key)
		default:
			s.kind = "U"
			set := ""
			for len(s.cols) == 0 {
				for _, c := range colNames {
					if rng.Intn(3) == 0 {
						s.cols[c] = tm*10 + 2
						if set != "" {
							set += ","
						}
						set += fmt.Sprintf("%s=%d", c, s.cols[c])
					}
				}
			}
			q = fmt.Sprintf(`update "%s" set %s where k=%d`, writers[w], set, key)
		}
		_, err := h.db.Exec(q)
		log = append(log, fmt.Sprintf("w%d @%d %s -> %v", w, tm, q, err))
		if err != nil {
			continue
		}
		all = append(all, s)
		seen[w] = append(seen[w], s)
		got := h.q(fmt.Sprintf(`select * from "%s"`, writers[w]))
		want := hModelTable(seen[w], nKeys, colNames)
		if got != want {
			fail("seed %d after stmt on writer %d: got %s want %s", seed, w, got, want)
		}
	}
	for w := range writers {
		h.refresh(writers[w])
		got := h.q(fmt.Sprintf(`select * from "%s"`, writers[w]))
		want := hModelTable(all, nKeys, colNames)
		if got != want {
			fail("seed %d final writer %d: got %s want %s", seed, w, got, want)
		}
	}
}

func TestHuntRandom(t *testing.T) {
	huntExploreOnly(t)
	for seed := int64(0); seed < 30; seed++ {
		seed := seed
		t.Run(fmt.Sprint(seed), func(t *testing.T) {
			hRandomRun(t, seed, 2+int(seed%3), 12, 3, 80, seed%2 == 0, 4)
		})
	}
}

func TestHuntRandomBig(t *testing.T) {
	huntExploreOnly(t)
	for seed := int64(100); seed < 112; seed++ {
		seed := seed
		t.Run(fmt.Sprint(seed), func(t *testing.T) {
			hRandomRun(t, seed, 2+int(seed%4), 80, 4, 400, seed%2 == 0, 40)
		})
	}
}

func TestHuntShapes2(t *testing.T) {
	huntExploreOnly(t)
	type sh struct{ q, want string }
	shapes := []sh{
		{`update w1 set a = w1.b from other o where o.k = w1.k`, `[[1,"b1","X","Y"]]`},
		{`update w1 set a = w1.b||w1.c from other o where o.k = w1.k and w1.b='b1'`, `[[1,"b1c1","X","Y"]]`},
		{`update w1 set a = b, b = b where k=1`, `[[1,"b1","b1","Y"]]`},
		{`update w1 set a = b from (select 1) where c='c1'`, `[[1,"b1","X","Y"]]`},
		{`update w1 set a = (select b from w1 x where x.k=w1.k)`, `[[1,"b1","X","Y"]]`},
		{`update w1 set a = o.v from other o, other o2 where o.k = w1.k and o2.k=o.k order by 1`, ``},
		{`update w1 set a = b order by k limit 1`, ``},
	}
	for i, shape := range shapes {
		t.Run(fmt.Sprint(i), func(t *testing.T) {
			h := newHuntEnv(t, "k primary key, a, b, c")
			defer h.db.Close()
			h.exec(`create table other(k primary key, v)`)
			h.exec(`insert into other values (1,'z')`)
			h.open("w1")
			h.open("w2")
			h.at("2020-01-01 00:00:01")
			h.exec(`insert into w1 values (1,'a1','b1','c1')`)
			h.refresh("w2")
			h.at("2020-01-01 00:00:05")
			h.exec(`update w2 set b='X', c='Y' where k=1`)
			h.at("2020-01-01 00:00:09")
			_, err := h.db.Exec(shape.q)
			if err != nil {
				t.Logf("shape %q: error %v", shape.q, err)
				return
			}
			h.refresh("w1")
			got := h.q(`select * from w1`)
			if got != shape.want {
				t.Errorf("shape %q: got %s", shape.q, got)
			}
		})
	}
}

func TestHuntRowid(t *testing.T) {
	huntExploreOnly(t)
	h := newHuntEnv(t, "a, b, c")
	defer h.db.Close()
	h.open("w1")
	h.open("w2")
	h.at("2020-01-01 00:00:01")
	h.exec(`insert into w1 values ('a1','b1','c1')`)
	h.refresh("w2")
	t.Log(h.q(`select _rowid_, * from w2`))
	h.at("2020-01-01 00:00:05")
	h.exec(`update w2 set b='X', c='Y'`)
	h.at("2020-01-01 00:00:09")
	h.exec(`update w1 set a='z'`)
	h.refresh("w1")
	require.Equal(t, `[["z","X","Y"]]`, h.q(`select * from w1`))
	h.at("2020-01-01 00:00:03")
	h.exec(`delete from w2`)
	h.refresh("w1")
	h.refresh("w2")
	require.Equal(t, `null`, h.q(`select * from w1`))
	require.Equal(t, `null`, h.q(`select * from w2`))
}

// huntExploreOnly guards the exploratory tests (statement shapes, model-based
// random runs). They PASS on the unchanged code and are kept only to document
// the ground that was covered; run them with HUNT_EXPLORE=1.
func huntExploreOnly(t *testing.T) {
	if os.Getenv("HUNT_EXPLORE") == "" {
		t.Skip("exploratory (passes); set HUNT_EXPLORE=1 to run")
	}
}

// ---------------------------------------------------------------------------
// Defect 1: a write time outside 1677-09-21 .. 2262-04-11 is accepted but is
// stored as a wrapped 64-bit nanosecond count, i.e. as a completely different
// time. The statement with the GREATEST write time then loses (it is even
// dropped by the entry-level gate on the writer that ran it), and a statement
// with an OLDER write time overrides a newer one.
// ---------------------------------------------------------------------------

// The newest statement is silently discarded on a single writer.
func TestHunt_WriteTimeAfter2262_NewestStatementIsDiscarded(t *testing.T) {
	for _, c := range []struct{ name, wt string }{
		{"control_last_representable_second", "2262-04-11 23:47:16"},
		{"one_second_later", "2262-04-11 23:47:17"},
		{"year_2300", "2300-01-01 00:00:00"},
	} {
		t.Run(c.name, func(t *testing.T) {
			h := newHuntEnv(t, "k primary key, a")
			defer h.db.Close()
			h.open("w")
			h.at("2020-01-01 00:00:00")
			h.exec(`insert into w values (1,'written-2020'), (2,'written-2020')`)

			h.at(c.wt)
			res, err := h.db.Exec(`update w set a='written-later' where k=1`)
			require.NoError(t, err, "the UPDATE is accepted")
			n, _ := res.RowsAffected()
			require.EqualValues(t, 1, n, "the UPDATE is accepted")
			res, err = h.db.Exec(`delete from w where k=2`)
			require.NoError(t, err, "the DELETE is accepted")
			n, _ = res.RowsAffected()
			require.EqualValues(t, 1, n, "the DELETE is accepted")

			// k=1: column a was assigned at 2020 and at c.wt; c.wt is greater.
			// k=2: the latest INSERT/DELETE is the DELETE.
			require.Equal(t, `[[1,"written-later"]]`, h.q(`select * from w`),
				"write_time %s", c.wt)
		})
	}
}

// An older statement overrides a newer one (single writer, two statements).
func TestHunt_WriteTimeOutOfRange_OlderOverridesNewer(t *testing.T) {
	t.Run("pinned_at_9999", func(t *testing.T) {
		h := newHuntEnv(t, "k primary key, a")
		defer h.db.Close()
		h.open("w")
		h.at("9999-12-31 23:59:59")
		h.exec(`insert into w values (1,'written-9999')`)
		h.at("2020-01-01 00:00:00")
		h.exec(`update w set a='written-2020' where k=1`)
		require.Equal(t, `[[1,"written-9999"]]`, h.q(`select * from w`))
	})
	t.Run("before_1677", func(t *testing.T) {
		h := newHuntEnv(t, "k primary key, a")
		defer h.db.Close()
		h.open("w")
		h.at("1600-01-01 00:00:00")
		h.exec(`insert into w values (1,'written-1600')`)
		h.at("2020-01-01 00:00:00")
		h.exec(`update w set a='written-2020' where k=1`)
		require.Equal(t, `[[1,"written-2020"]]`, h.q(`select * from w`))
	})
}

// ---------------------------------------------------------------------------
// Defect 2: both write times are representable, but they are more than
// 292.47 years apart. Offsets between times are time.Duration values computed
// with time.Time.Sub, which saturates: an UPDATE at 2100 of a row inserted at
// 1700 records the INSERT as having happened in 1807, so a DELETE at 1750 no
// longer deletes the row (deletes are supposed to be sticky against UPDATEs
// with a later write time).
// ---------------------------------------------------------------------------
func TestHunt_WriteTimesMoreThan292YearsApart_DeleteIsNotSticky(t *testing.T) {
	t.Run("one_writer", func(t *testing.T) {
		h := newHuntEnv(t, "k primary key, a")
		defer h.db.Close()
		h.open("w")
		h.at("1700-01-01 00:00:00")
		h.exec(`insert into w values (1,'v1700')`)
		h.at("2100-01-01 00:00:00")
		h.exec(`update w set a='v2100' where k=1`)
		h.at("1750-01-01 00:00:00")
		h.exec(`delete from w where k=1`)
		// latest INSERT/DELETE of k=1 is the DELETE at 1750
		require.Equal(t, `null`, h.q(`select * from w`))
	})
	t.Run("two_writers", func(t *testing.T) {
		h := newHuntEnv(t, "k primary key, a")
		defer h.db.Close()
		h.open("w1")
		h.open("w2")
		h.at("1700-01-01 00:00:00")
		h.exec(`insert into w1 values (1,'v1700')`)
		h.refresh("w2")
		h.at("2100-01-01 00:00:00")
		h.exec(`update w1 set a='v2100' where k=1`)
		h.at("1750-01-01 00:00:00")
		h.exec(`delete from w2 where k=1`)
		h.refresh("w1")
		h.refresh("w2")
		require.Equal(t, `null`, h.q(`select * from w1`))
		require.Equal(t, `null`, h.q(`select * from w2`))
	})
	t.Run("control_200_years", func(t *testing.T) {
		h := newHuntEnv(t, "k primary key, a")
		defer h.db.Close()
		h.open("w")
		h.at("1900-01-01 00:00:00")
		h.exec(`insert into w values (1,'v1900')`)
		h.at("2100-01-01 00:00:00")
		h.exec(`update w set a='v2100' where k=1`)
		h.at("1950-01-01 00:00:00")
		h.exec(`delete from w where k=1`)
		require.Equal(t, `null`, h.q(`select * from w`))
	})
}

// ---------------------------------------------------------------------------
// Defect 3 (weaker link to the property): an assignment to
// s3db_conn.write_time that FAILS (unparseable text) nevertheless clears the
// connection's explicit write time. The statements that follow silently carry
// the wall clock instead of the write time the connection was set to, so a
// retry that was rewound to its original request time overrides later writes.
// ---------------------------------------------------------------------------
func TestHunt_FailedWriteTimeAssignmentClearsWriteTime(t *testing.T) {
	h := newHuntEnv(t, "k primary key, a")
	defer h.db.Close()
	h.open("w")
	h.at("2020-01-01 00:00:05")
	h.exec(`insert into w values (1,'written-00:00:05')`)

	h.at("2020-01-01 00:00:03") // rewind, as for a retry of an older request
	_, err := h.db.Exec(`update s3db_conn set write_time='2020-01-01T00:00:03Z'`)
	require.Error(t, err, "not in the accepted format: refused")
	// a refused statement must not have changed the attribute
	assert.Equal(t, `[["2020-01-01 00:00:03"]]`, h.q(`select write_time from s3db_conn`))

	h.exec(`update w set a='written-00:00:03' where k=1`)
	require.Equal(t, `[[1,"written-00:00:05"]]`, h.q(`select * from w`))
}

// Concurrent writers, each on its own connection and handle, committing and
// refreshing at the same time; after quiescence all views must equal the model
// applied to the statements that were accepted.
func TestHuntConcurrent(t *testing.T) {
	huntExploreOnly(t)
	for seed := int64(0); seed < 6; seed++ {
		seed := seed
		t.Run(fmt.Sprint(seed), func(t *testing.T) {
			const nWriters, nKeys, nStmts = 4, 8, 120
			colNames := []string{"a", "b", "c"}
			_, bucket, endpoint := openDB()
			envs := make([]*huntEnv, nWriters)
			for w := range envs {
				db, err := sql.Open("sqlite3", ":memory:")
				require.NoError(t, err)
				db.SetMaxOpenConns(1)
				envs[w] = &huntEnv{t: t, db: db, bucket: bucket, endpoint: endpoint, prefix: t.Name(), cols: "k primary key, a, b, c",
					extra: fmt.Sprintf("entries_per_node=%d,", 2+seed%3)}
				defer db.Close()
				envs[w].open(fmt.Sprintf("cw%d_%d", seed, w))
			}
			var mu sync.Mutex
			var all []hStmt
			var wg sync.WaitGroup
			errs := make(chan error, nWriters)
			for w := 0; w < nWriters; w++ {
				w := w
				wg.Add(1)
				go func() {
					defer wg.Done()
					rng := rand.New(rand.NewSource(seed*100 + int64(w)))
					h := envs[w]
					name := fmt.Sprintf("cw%d_%d", seed, w)
					order := rng.Perm(nStmts)
					for i := 0; i < nStmts; i++ {
						if rng.Intn(5) == 0 {
							if _, err := h.db.Exec(fmt.Sprintf(`select s3db_refresh('%s')`, name)); err != nil {
								errs <- fmt.Errorf("refresh: %w", err)
								return
							}
						}
						tm := order[i]*nWriters + w + 1
						key := rng.Intn(nKeys)
						if _, err := h.db.Exec(`update s3db_conn set write_time=?`, hTime(tm)); err != nil {
							errs <- err
							return
						}
						s := hStmt{key: key, t: tm, cols: map[string]int{}}
						var q string
						switch r := rng.Intn(10); {
						case r < 4:
							s.kind = "I"
							s.cols = map[string]int{"a": tm*10 + 1, "b": tm*10 + 1, "c": tm*10 + 1}
							q = fmt.Sprintf(`insert into "%s" values (%d,%d,%d,%d)`, name, key, tm*10+1, tm*10+1, tm*10+1)
						case r < 6:
							s.kind = "D"
							q = fmt.Sprintf(`delete from "%s" where k=%d`, name, key)
						default:
							s.kind = "U"
							c := colNames[rng.Intn(3)]
							s.cols[c] = tm*10 + 2
							q = fmt.Sprintf(`update "%s" set %s=%d where k=%d`, name, c, tm*10+2, key)
						}
						res, err := h.db.Exec(q)
						if err != nil {
							if s.kind == "I" {
								continue // key present: not accepted
							}
							errs <- fmt.Errorf("%s: %w", q, err)
							return
						}
						if n, _ := res.RowsAffected(); n != 1 {
							continue
						}
						mu.Lock()
						all = append(all, s)
						mu.Unlock()
					}
				}()
			}
			wg.Wait()
			close(errs)
			for err := range errs {
				t.Fatal(err)
			}
			want := hModelTable(all, nKeys, colNames)
			kinds := map[string]int{}
			for _, s := range all {
				kinds[s.kind]++
			}
			t.Logf("accepted statements: %v; expected final table %s", kinds, want)
			for round := 0; round < 2; round++ {
				for w := range envs {
					envs[w].refresh(fmt.Sprintf("cw%d_%d", seed, w))
				}
			}
			for w := range envs {
				got := envs[w].q(fmt.Sprintf(`select * from "cw%d_%d"`, seed, w))
				if got != want {
					t.Errorf("writer %d: got %s want %s", w, got, want)
				}
			}
		})
	}
}
