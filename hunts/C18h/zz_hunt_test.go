package kv

// Hunt for property C18 ("Encrypted nodes are confidential, authenticated and
// still deduplicate").
//
// Main finding (TestHuntC18_LegacyBox*): a stored object in the earlier
// hand-rolled box format -- which decrypt() promises to keep reading -- is NOT
// authenticated against somebody who does not have the passphrase but knows
// (part of) that object's plaintext. The old format restarts the Salsa20 key
// stream after the first 32 message bytes, so ciphertext bytes 32..63 are
// plaintext XOR the one-time Poly1305 key. Whoever knows those 32 plaintext
// bytes gets the MAC key, can re-MAC any modification, and decrypt() returns
// data with a nil error, although the nonce (which encrypt() derives from
// message||key and which decrypt() already recomputes to tell the formats
// apart) matches neither decoding.

import (
	"bytes"
	"io"
	"strings"
	"testing"

	"github.com/aws/aws-sdk-go/aws"
	"github.com/aws/aws-sdk-go/service/s3"
	"github.com/jrhy/mast"
	"github.com/jrhy/mast/persist/s3test"
	crdtpub "github.com/jrhy/s3db/kv/crdt"
	"github.com/stretchr/testify/require"
	"golang.org/x/crypto/poly1305"
)

// huntLegacySeal is what the earlier implementation of encrypt() stored: the
// nonce derived from message||key, followed by the hand-rolled box.
func huntLegacySeal(t testing.TB, key *[32]byte, message []byte) []byte {
	t.Helper()
	n, err := nonce(append(append([]byte{}, message...), key[:]...), encryptNonceLen)
	require.NoError(t, err)
	box, err := crypto_secretbox_easy(message, n, key)
	require.NoError(t, err)
	return append(append([]byte{}, n...), box...)
}

// huntKeystream is the attacker's first step. It uses ONLY the stored object
// and the plaintext the attacker happens to know, never the key. It returns
// the Salsa20 key stream ks[0:len(known)-32] of that object's nonce;
// ks[0:32] is the Poly1305 key.
//
// old format:  c[i] = m[i] ^ ks[32+i]   for i <  32
//
//	c[i] = m[i] ^ ks[i-32]   for i >= 32   (stream restarted at 0)
func huntKeystream(stored, known []byte) []byte {
	c := stored[encryptNonceLen+macLen:]
	ks := make([]byte, len(known)-32)
	for i := 32; i < len(known); i++ {
		ks[i-32] = c[i] ^ known[i]
	}
	return ks
}

// huntForge builds, without the key, an object with the same nonce that
// secretbox.Open accepts and decodes to 'want'.
func huntForge(stored, ks, want []byte) []byte {
	if 32+len(want) > len(ks) {
		panic("not enough known key stream")
	}
	c := make([]byte, len(want))
	for i := range want {
		c[i] = want[i] ^ ks[32+i] // NaCl layout: message starts at stream offset 32
	}
	var polyKey [32]byte
	copy(polyKey[:], ks[:32])
	var mac [16]byte
	poly1305.Sum(&mac, c, &polyKey)
	out := append([]byte{}, stored[:encryptNonceLen]...)
	out = append(out, mac[:]...)
	return append(out, c...)
}

func TestHuntC18_LegacyBoxForgedWithoutKeyIsAccepted(t *testing.T) {
	enc := V1NodeEncryptor([]byte("the owner's passphrase"))
	key := &enc.(*jencryptor).key

	// A node the old implementation stored; the attacker knows its content.
	known := []byte(strings.Repeat("public, guessable or attacker-supplied row content; ", 4))
	stored := huntLegacySeal(t, key, known)
	got, err := enc.Decrypt("node", stored)
	require.NoError(t, err)
	require.Equal(t, known, got, "old-format object is readable (precondition)")

	ks := huntKeystream(stored, known) // no key involved from here on

	for _, want := range [][]byte{
		[]byte("balance=1000000"), // <= 32 bytes
		[]byte("a forged node that is longer than the thirty-two bytes of the first block: balance=1000000"),
	} {
		forged := huntForge(stored, ks, want)
		require.NotEqual(t, stored, forged)
		got, err := enc.Decrypt("node", forged)
		if err == nil {
			t.Errorf("C18 violated: an object modified by someone who never had the passphrase decrypts "+
				"without error and yields attacker-chosen data %q (same=%v)", got, bytes.Equal(got, want))
		}
	}
}

func TestHuntC18_LegacyBoxBitFlipWithFixedUpMACIsAccepted(t *testing.T) {
	enc := V1NodeEncryptor([]byte("the owner's passphrase"))
	key := &enc.(*jencryptor).key
	original := bytes.Repeat([]byte("0123456789abcdef"), 6) // 96 bytes
	stored := huntLegacySeal(t, key, original)

	// The attacker knows only plaintext bytes 32..63 (for instance a fixed
	// gob type header): that is the Poly1305 key of this object.
	c := append([]byte{}, stored[encryptNonceLen+macLen:]...)
	var polyKey [32]byte
	for i := 0; i < 32; i++ {
		polyKey[i] = c[32+i] ^ original[32+i]
	}
	c[0] ^= 0x01 // single-bit corruption of the ciphertext ...
	var mac [16]byte
	poly1305.Sum(&mac, c, &polyKey) // ... with the MAC recomputed
	tampered := append(append(append([]byte{}, stored[:encryptNonceLen]...), mac[:]...), c...)

	got, err := enc.Decrypt("node", tampered)
	if err == nil {
		t.Errorf("C18 violated: tampered old-format object decrypts without error; "+
			"returned %d bytes that are neither the original (equal=%v) nor match the stored nonce (nonceMatches=%v)",
			len(got), bytes.Equal(got, original), nonceMatches(key, got, tampered[:encryptNonceLen]))
	}
}

// huntLegacyEncryptor stores nodes like the earlier implementation did.
type huntLegacyEncryptor struct {
	key       [32]byte
	plaintext map[string][]byte // what the attacker is assumed to know
}

func (e *huntLegacyEncryptor) Encrypt(path string, value []byte) ([]byte, error) {
	e.plaintext[path] = append([]byte{}, value...)
	n, err := nonce(append(append([]byte{}, value...), e.key[:]...), encryptNonceLen)
	if err != nil {
		return nil, err
	}
	box, err := crypto_secretbox_easy(value, n, &e.key)
	if err != nil {
		return nil, err
	}
	return append(append([]byte{}, n...), box...), nil
}
func (e *huntLegacyEncryptor) Decrypt(path string, value []byte) ([]byte, error) {
	return decrypt(&e.key, value)
}

// End to end: a bucket written in the old format, a storage provider who knows
// one row, and a reader with the right passphrase who is served a forged row.
func TestHuntC18_LegacyBucketRowForgedByStorageProvider(t *testing.T) {
	tm := newTestTime()
	c, bucketName, closer := s3test.Client()
	defer closer()
	passphrase := []byte("the owner's passphrase")
	old := &huntLegacyEncryptor{plaintext: map[string][]byte{}}
	old.key = V1NodeEncryptor(passphrase).(*jencryptor).key
	cfg := Config{
		Storage:       &S3BucketInfo{c.Endpoint, bucketName, "huntlegacy"},
		KeysLike:      "stringy",
		ValuesLike:    "stringy",
		BranchFactor:  4,
		NodeEncryptor: old,
	}
	w, err := Open(ctx, c, cfg, OpenOptions{}, tm.next())
	require.NoError(t, err)
	when := tm.next()
	require.NoError(t, w.Set(ctx, when, "account", "balance=1; "+strings.Repeat("memo text the provider knows. ", 8)))
	_, err = w.Commit(ctx)
	require.NoError(t, err)
	require.Len(t, old.plaintext, 1)

	// --- the storage provider; does not use the key ---
	var name string
	var known []byte
	for name, known = range old.plaintext {
	}
	objKey := cfg.Storage.Prefix + "node/" + name
	out, err := c.GetObjectWithContext(ctx, &s3.GetObjectInput{Bucket: &bucketName, Key: &objKey})
	require.NoError(t, err)
	stored, err := io.ReadAll(out.Body)
	require.NoError(t, err)
	require.False(t, bytes.Contains(stored, []byte("balance")))
	want, err := marshalGob(mast.Node{
		Key:   []interface{}{"account"},
		Value: []interface{}{crdtpub.Value{ModEpochNanos: when.UnixNano(), Value: "balance=1000000"}},
	})
	require.NoError(t, err)
	forged := huntForge(stored, huntKeystream(stored, known), want)
	_, err = c.PutObjectWithContext(ctx, &s3.PutObjectInput{Bucket: &bucketName, Key: &objKey, Body: bytes.NewReader(forged)})
	require.NoError(t, err)

	// --- a reader with the right passphrase and today's code ---
	cfg.NodeEncryptor = V1NodeEncryptor(passphrase)
	r, err := Open(ctx, c, cfg, OpenOptions{ReadOnly: true}, tm.next())
	if err != nil {
		t.Logf("open reports the modification: %v", err)
		return
	}
	var v string
	found, err := r.Get(ctx, "account", &v)
	if err == nil {
		t.Errorf("C18 violated: node object rewritten without the passphrase is served without error: found=%v account=%q", found, v)
	}
}

// Second finding: the passphrase is not checked when the node comes out of
// the (endpoint-scoped, shareable) NodeCache, so a handle opened with a
// different passphrase is given data instead of an error -- and can then
// commit nodes sealed with the wrong key into the same tree.
func TestHuntC18_DifferentPassphraseYieldsDataThroughNodeCache(t *testing.T) {
	tm := newTestTime()
	c, bucketName, closer := s3test.Client()
	defer closer()
	cfg := Config{
		Storage:       &S3BucketInfo{c.Endpoint, bucketName, "huntcache"},
		KeysLike:      "stringy",
		ValuesLike:    "stringy",
		BranchFactor:  4,
		NodeEncryptor: V1NodeEncryptor([]byte("right")),
		NodeCache:     mast.NewNodeCache(1000),
	}
	s, err := Open(ctx, c, cfg, OpenOptions{}, tm.next())
	require.NoError(t, err)
	for _, k := range []string{"a", "b", "c", "d", "e", "f", "g", "h", "i", "j"} {
		require.NoError(t, s.Set(ctx, tm.next(), k, "secret-"+k))
	}
	_, err = s.Commit(ctx)
	require.NoError(t, err)

	wrong := cfg
	wrong.NodeEncryptor = V1NodeEncryptor([]byte("WRONG"))
	r, err := Open(ctx, c, wrong, OpenOptions{ReadOnly: true}, tm.next())
	if err == nil {
		var v string
		found, gerr := r.Get(ctx, "e", &v)
		t.Errorf("C18 violated: a different passphrase is not reported; Open succeeded and Get gave found=%v value=%q err=%v", found, v, gerr)
	} else {
		require.ErrorIs(t, err, ErrMACVerificationFailure)
	}

	// Consequence: the same handle may write. Afterwards the tree mixes
	// nodes sealed under two keys and no single passphrase reads it.
	wr, err := Open(ctx, c, wrong, OpenOptions{}, tm.next())
	if err != nil {
		return
	}
	require.NoError(t, wr.Set(ctx, tm.next(), "e", "overwritten"))
	_, err = wr.Commit(ctx)
	if err != nil {
		return
	}
	cold := cfg
	cold.NodeCache = nil
	if _, err := Open(ctx, c, cold, OpenOptions{ReadOnly: true}, tm.next()); err != nil {
		t.Errorf("after a commit made with the wrong passphrase, the right passphrase cannot open the table any more: %v", err)
	}
}

// Third observation: the object is not bound to its name. Encrypt/Decrypt
// ignore 'path' (although the Encryptor interface says the nonce is derived
// from it) and mast does not compare a loaded node with the hash it is named
// by, so replacing one stored object by another one sealed under the same
// passphrase is not reported.
func TestHuntC18_StoredObjectReplacedByAnotherIsAccepted(t *testing.T) {
	tm := newTestTime()
	c, bucketName, closer := s3test.Client()
	defer closer()
	cfg := Config{
		Storage:       &S3BucketInfo{c.Endpoint, bucketName, "huntswap"},
		KeysLike:      "stringy",
		ValuesLike:    "stringy",
		BranchFactor:  4,
		NodeEncryptor: V1NodeEncryptor([]byte("pp")),
	}
	s, err := Open(ctx, c, cfg, OpenOptions{}, tm.next())
	require.NoError(t, err)
	require.NoError(t, s.Set(ctx, tm.next(), "a", "old"))
	_, err = s.Commit(ctx)
	require.NoError(t, err)
	before, err := s.listNodes(ctx)
	require.NoError(t, err)
	require.Len(t, before, 1)
	require.NoError(t, s.Set(ctx, tm.next(), "a", "new"))
	_, err = s.Commit(ctx)
	require.NoError(t, err)
	after, err := s.listNodes(ctx)
	require.NoError(t, err)
	require.Len(t, after, 2)
	oldNode := before[0]
	newNode := after[0]
	if newNode == oldNode {
		newNode = after[1]
	}
	prefix := cfg.Storage.Prefix + "node/"
	out, err := c.GetObjectWithContext(ctx, &s3.GetObjectInput{Bucket: &bucketName, Key: aws.String(prefix + oldNode)})
	require.NoError(t, err)
	body, err := io.ReadAll(out.Body)
	require.NoError(t, err)
	_, err = c.PutObjectWithContext(ctx, &s3.PutObjectInput{Bucket: &bucketName, Key: aws.String(prefix + newNode), Body: bytes.NewReader(body)})
	require.NoError(t, err)

	r, err := Open(ctx, c, cfg, OpenOptions{ReadOnly: true}, tm.next())
	if err != nil {
		return
	}
	var v string
	found, err := r.Get(ctx, "a", &v)
	if err == nil {
		t.Errorf("C18 violated: stored object %s was overwritten (with the bytes of %s) and is served without error: found=%v a=%q", newNode, oldNode, found, v)
	}
}
