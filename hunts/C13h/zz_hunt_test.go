package mod_test

import (
	"database/sql"
	"fmt"
	"net/http"
	"net/http/httptest"
	"strings"
	"sync"
	"testing"

	"github.com/aws/aws-sdk-go/aws"
	"github.com/aws/aws-sdk-go/aws/credentials"
	"github.com/aws/aws-sdk-go/aws/session"
	"github.com/aws/aws-sdk-go/service/s3"
	"github.com/johannesboyne/gofakes3"
	"github.com/johannesboyne/gofakes3/backend/s3mem"
	"github.com/stretchr/testify/require"
)

// huntBucket is one in-memory bucket served through two HTTP endpoints:
// writerURL (plain) and readerURL (every request is recorded), so that the
// requests of a table created with s3_endpoint=readerURL can be attributed
// to that table alone.
type huntBucket struct {
	bucket    string
	writerURL string
	readerURL string

	mu   sync.Mutex
	reqs []string
}

func newHuntBucket(t *testing.T) *huntBucket {
	backend := s3mem.New()
	faker := gofakes3.New(backend)
	h := faker.Server()
	hb := &huntBucket{bucket: "huntbucket"}
	ws := httptest.NewServer(h)
	t.Cleanup(ws.Close)
	rs := httptest.NewServer(http.HandlerFunc(func(w http.ResponseWriter, r *http.Request) {
		hb.mu.Lock()
		hb.reqs = append(hb.reqs, r.Method+" "+r.URL.Path)
		hb.mu.Unlock()
		h.ServeHTTP(w, r)
	}))
	t.Cleanup(rs.Close)
	hb.writerURL = ws.URL
	hb.readerURL = rs.URL
	sess, err := session.NewSession(&aws.Config{
		Credentials:      credentials.NewStaticCredentials("x", "y", ""),
		Endpoint:         aws.String(ws.URL),
		Region:           aws.String("dummy"),
		DisableSSL:       aws.Bool(true),
		S3ForcePathStyle: aws.Bool(true),
	})
	require.NoError(t, err)
	_, err = s3.New(sess).CreateBucket(&s3.CreateBucketInput{Bucket: &hb.bucket})
	require.NoError(t, err)
	return hb
}

// mutations returns the recorded PUT/DELETE/POST requests.
func (hb *huntBucket) mutations() []string {
	hb.mu.Lock()
	defer hb.mu.Unlock()
	var res []string
	for _, r := range hb.reqs {
		if !strings.HasPrefix(r, "GET ") && !strings.HasPrefix(r, "HEAD ") {
			res = append(res, r)
		}
	}
	return res
}

func (hb *huntBucket) all() []string {
	hb.mu.Lock()
	defer hb.mu.Unlock()
	return append([]string{}, hb.reqs...)
}

func huntDB(t *testing.T) *sql.DB {
	db, err := sql.Open("sqlite3", ":memory:")
	require.NoError(t, err)
	db.SetMaxOpenConns(1)
	t.Cleanup(func() { db.Close() })
	return db
}

func (hb *huntBucket) createWriter(t *testing.T, db *sql.DB, name, prefix, extra string) {
	_, err := db.Exec(fmt.Sprintf(`create virtual table %s using s3db (%s
s3_bucket='%s', s3_endpoint='%s', s3_prefix='%s', columns='a primary key, b')`,
		name, extra, hb.bucket, hb.writerURL, prefix))
	require.NoError(t, err)
}

func (hb *huntBucket) createReader(t *testing.T, db *sql.DB, name, prefix, extra string) {
	_, err := db.Exec(fmt.Sprintf(`create virtual table %s using s3db (readonly, %s
s3_bucket='%s', s3_endpoint='%s', s3_prefix='%s', columns='a primary key, b')`,
		name, extra, hb.bucket, hb.readerURL, prefix))
	require.NoError(t, err)
}

func tryExec(t *testing.T, db *sql.DB, q string, args ...any) error {
	_, err := db.Exec(q, args...)
	t.Logf("exec %-70s -> %v", q, err)
	return err
}

func tryQuery(t *testing.T, db *sql.DB, q string, args ...any) (res string, err error) {
	defer func() {
		if r := recover(); r != nil {
			err = fmt.Errorf("%v", r)
		}
		t.Logf("query %-69s -> %s %v", q, res, err)
	}()
	res = mustQueryToJSON(db, q, args...)
	return
}

// rows returns the visible rows of a table as JSON and fails the test if the
// query itself fails.
func huntRows(t *testing.T, db *sql.DB, table string) string {
	res, err := tryQuery(t, db, `select * from `+table+` order by a`)
	require.NoError(t, err)
	return res
}

// Defect 1. Property C13: "Write statements against it fail with an error".
//
// A write statement that happens to match no row (UPDATE/DELETE with a WHERE
// that selects nothing, INSERT ... SELECT that yields nothing) does not fail
// on a read-only table: SQLite calls xBegin (which snapshots the tree into
// txStart), no xUpdate, then xSync/xCommit. xSync returns early for
// read-only tables without running the common Commit, the only place that
// clears txStart. From then on the table is stuck in a transaction nobody
// opened: every later statement is refused with "transaction already in
// progress" and vacuum with "cannot vacuum inside a transaction".
func TestHuntC13_ZeroRowWriteSucceedsAndWedgesReadOnlyTable(t *testing.T) {
	hb := newHuntBucket(t)
	wdb := huntDB(t) // the writer's connection
	db := huntDB(t)  // the read-only user's connection
	hb.createWriter(t, wdb, "h1_w", "p", "")
	require.NoError(t, tryExec(t, wdb, `insert into h1_w values (1,1),(2,2)`))

	stmts := []string{
		`update %s set b = 7 where a = 999`,
		`delete from %s where a = 999`,
		`insert into %s select 5, 5 where 0`,
	}
	for i, stmt := range stmts {
		ro := fmt.Sprintf("h1_ro%d", i)
		hb.createReader(t, db, ro, "p", "")
		before := huntRows(t, db, ro)

		// control: a write that touches a row is refused as read-only
		err := tryExec(t, db, `insert into `+ro+` values (100,100)`)
		require.ErrorContains(t, err, "read-only")

		// the property: a write statement against a read-only table fails
		q := fmt.Sprintf(stmt, ro)
		if err := tryExec(t, db, q); err == nil {
			t.Errorf("C13 violated: write statement %q against read-only table %s did not fail", q, ro)
		}

		// consequence: the connection is in autocommit mode, no transaction
		// is open, yet the table now believes one is
		err = tryExec(t, db, `insert into `+ro+` values (100,100)`)
		require.Error(t, err)
		if strings.Contains(err.Error(), "transaction already in progress") {
			t.Errorf("read-only table %s is stuck in a phantom transaction after %q: autocommit insert fails with %q (before: \"set: opened as read-only\")", ro, q, err)
		}
		vac, err := tryQuery(t, db, `select * from s3db_vacuum('`+ro+`', '2040-01-01 00:00:00')`)
		require.NoError(t, err)
		if strings.Contains(vac, "inside a transaction") {
			t.Errorf("read-only table %s: vacuum attempt outside any transaction reports %s", ro, vac)
		}
		require.Equal(t, before, huntRows(t, db, ro))
	}
	require.Empty(t, hb.mutations(), "read-only tables issued PUT/DELETE")
}

// Defect 2. Property C13: write statements against a read-only table "leave
// its visible rows unchanged", for all statement sequences including the
// maintenance functions.
//
// A read-only table snapshots its tree at xBegin like a writable one and
// xRollback puts the snapshot back. Nothing can have been written, but
// s3db_refresh (explicitly allowed on read-only tables at any time) may have
// replaced the tree since: rolling back a transaction that contains nothing
// but refused writes throws the refreshed view away and the table goes back
// in time; rows it showed a moment ago disappear.
func TestHuntC13_RollbackOfRefusedWriteRevertsReadOnlyView(t *testing.T) {
	hb := newHuntBucket(t)
	wdb := huntDB(t)
	db := huntDB(t)
	hb.createWriter(t, wdb, "h2_w", "p", "")
	require.NoError(t, tryExec(t, wdb, `insert into h2_w values (1,1),(2,2)`))
	hb.createReader(t, db, "h2_ro", "p", "")
	require.Equal(t, `[[1,1],[2,2]]`, huntRows(t, db, "h2_ro"))

	require.NoError(t, tryExec(t, db, `begin`))
	require.Error(t, tryExec(t, db, `insert into h2_ro values (100,100)`))
	// another writer commits a row; the reader refreshes and sees it
	require.NoError(t, tryExec(t, wdb, `insert into h2_w values (3,3)`))
	_, err := tryQuery(t, db, `select s3db_refresh('h2_ro')`)
	require.NoError(t, err)
	before := huntRows(t, db, "h2_ro")
	require.Equal(t, `[[1,1],[2,2],[3,3]]`, before)
	// a refused write, and the end of a transaction that wrote nothing
	require.Error(t, tryExec(t, db, `insert into h2_ro values (101,101)`))
	require.Equal(t, before, huntRows(t, db, "h2_ro"))
	require.NoError(t, tryExec(t, db, `rollback`))
	after := huntRows(t, db, "h2_ro")
	if after != before {
		t.Errorf("C13 violated: visible rows of the read-only table changed from %s to %s across a refused write and its ROLLBACK", before, after)
	}
	require.Empty(t, hb.mutations(), "read-only table issued PUT/DELETE")
}
