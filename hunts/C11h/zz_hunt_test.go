package mod_test

// Hunt for violations of property C11 ("a version name denotes an immutable
// snapshot"). Each test below fails on the unchanged code; see NOTES.md.

import (
	"context"
	"database/sql"
	"encoding/json"
	"fmt"
	"testing"
	"time"

	"github.com/stretchr/testify/require"

	"github.com/jrhy/s3db"
	v1proto "github.com/jrhy/s3db/proto/v1"
)

const huntTimeFormat = "2006-01-02 15:04:05"

func huntOpen(t *testing.T) (*sql.DB, string, string) {
	db, bucket, endpoint := openDB()
	// ":memory:" databases are per connection: keep everything on one.
	db.SetMaxOpenConns(1)
	t.Cleanup(func() { db.Close() })
	return db, bucket, endpoint
}

func huntCreate(t *testing.T, db *sql.DB, name, bucket, endpoint, prefix string) {
	_, err := db.Exec(fmt.Sprintf(`create virtual table %s using s3db (
s3_bucket='%s',
s3_endpoint='%s',
s3_prefix='%s',
columns='a primary key, b')`, name, bucket, endpoint, prefix))
	require.NoError(t, err)
}

func huntQuery(db *sql.DB, q string) (string, error) {
	r, err := db.Query(q)
	if err != nil {
		return "", err
	}
	defer r.Close()
	rows := mustGetRows(r)
	if err := r.Err(); err != nil {
		return "", err
	}
	return mustJSON(rows), nil
}

func huntVersion(t *testing.T, db *sql.DB, table string) string {
	var v string
	require.NoError(t, db.QueryRow(`select s3db_version(?)`, table).Scan(&v))
	return v
}

// huntCutoff returns a whole-second timestamp that is strictly later than
// everything done before the call, and returns only once the clock is strictly
// past it: whatever the caller does next happens after the cutoff.
func huntCutoff() string {
	c := time.Now().UTC().Truncate(time.Second).Add(time.Second)
	time.Sleep(time.Until(c.Add(100 * time.Millisecond)))
	return c.Format(huntTimeFormat)
}

// huntRowsAtSQL reads the rows of `version` the SQL way: everything that
// differs between the empty version and `version`.
func huntRowsAtSQL(db *sql.DB, table, version string) (string, error) {
	name := fmt.Sprintf("hunt_snap_%d", time.Now().UnixNano())
	_, err := db.Exec(fmt.Sprintf(
		`create virtual table %s using s3db_changes (table='%s', from='[]', to='%s')`,
		name, table, version))
	if err != nil {
		return "", err
	}
	defer db.Exec("drop table " + name)
	return huntQuery(db, "select * from "+name)
}

// huntRowsAtGo reads the rows of `version` the Go way, like another process
// would: a fresh read-only handle restricted to those versions.
func huntRowsAtGo(bucket, endpoint, prefix, version string) (string, error) {
	var versions []string
	if err := json.Unmarshal([]byte(version), &versions); err != nil {
		return "", err
	}
	if versions == nil {
		versions = []string{}
	}
	ctx := context.Background()
	h, err := s3db.OpenKV(ctx, s3db.S3Options{
		Bucket:       bucket,
		Endpoint:     endpoint,
		Prefix:       prefix,
		ReadOnly:     true,
		OnlyVersions: versions,
	}, "s3db-rows")
	if err != nil {
		return "", err
	}
	var rows [][]interface{}
	if h.Root.Size() > 0 {
		c, err := h.Root.Cursor(ctx)
		if err != nil {
			return "", err
		}
		if err := c.Min(ctx); err != nil {
			return "", err
		}
		for {
			k, v, ok := c.Get()
			if !ok {
				break
			}
			if row, _ := v.Value.(*v1proto.Row); row != nil && !row.Deleted {
				var b interface{}
				if cv, ok := row.ColumnValues["b"]; ok {
					b = s3db.FromSQLiteValue(cv.Value)
				}
				rows = append(rows, []interface{}{k.(*s3db.Key).Value(), b})
			}
			if err := c.Forward(ctx); err != nil {
				return "", err
			}
		}
	}
	return mustJSON(rows), nil
}

// Defect 1. After a vacuum that purges the last delete markers of a table
// (the tree becomes empty), s3db_version() names a version whose object that
// very vacuum deleted: the version cannot be opened by anybody, although no
// vacuum (nor anything else) happened after it was handed out.
func TestHunt_VersionHandedOutAfterVacuumOfEmptiedTableCannotBeOpened(t *testing.T) {
	db, bucket, endpoint := huntOpen(t)
	huntCreate(t, db, "hunt_e", bucket, endpoint, "hunt_e")

	_, err := db.Exec(`insert into hunt_e values(1,'one')`)
	require.NoError(t, err)
	_, err = db.Exec(`delete from hunt_e where a=1`)
	require.NoError(t, err)

	cutoff := huntCutoff()
	res, err := huntQuery(db, fmt.Sprintf(`select * from s3db_vacuum('hunt_e','%s')`, cutoff))
	require.NoError(t, err)
	require.Equal(t, `[[null]]`, res, "vacuum reports no error")

	// step i: the version, and the rows visible at that moment (none)
	v := huntVersion(t, db, "hunt_e")
	rows, err := huntQuery(db, `select * from hunt_e`)
	require.NoError(t, err)
	require.Equal(t, `null`, rows)
	require.NotEqual(t, `[]`, v, "the table has a version")
	t.Logf("s3db_version() after the vacuum: %s", v)

	// step j>i: nothing at all happened in between
	got, err := huntRowsAtGo(bucket, endpoint, "hunt_e", v)
	require.NoError(t, err, "opening the table restricted to %s (Go API, as another process would)", v)
	require.Equal(t, rows, got)
	got, err = huntRowsAtSQL(db, "hunt_e", v)
	require.NoError(t, err, "opening the table restricted to %s (s3db_changes)", v)
	require.Equal(t, rows, got)
}

// Defect 1, other face: for the same reason a refresh that changes nothing
// (no other writer exists, the rows before and after are the same: none)
// changes s3db_version().
func TestHunt_RefreshThatChangesNothingChangesVersionAfterVacuumOfEmptiedTable(t *testing.T) {
	db, bucket, endpoint := huntOpen(t)
	huntCreate(t, db, "hunt_r", bucket, endpoint, "hunt_r")

	_, err := db.Exec(`insert into hunt_r values(1,'one')`)
	require.NoError(t, err)
	_, err = db.Exec(`delete from hunt_r where a=1`)
	require.NoError(t, err)

	cutoff := huntCutoff()
	res, err := huntQuery(db, fmt.Sprintf(`select * from s3db_vacuum('hunt_r','%s')`, cutoff))
	require.NoError(t, err)
	require.Equal(t, `[[null]]`, res, "vacuum reports no error")

	before := huntVersion(t, db, "hunt_r")
	rowsBefore, err := huntQuery(db, `select * from hunt_r`)
	require.NoError(t, err)

	_, err = huntQuery(db, `select s3db_refresh('hunt_r')`)
	require.NoError(t, err)

	after := huntVersion(t, db, "hunt_r")
	rowsAfter, err := huntQuery(db, `select * from hunt_r`)
	require.NoError(t, err)
	require.Equal(t, rowsBefore, rowsAfter, "the refresh changed no row (there is no other writer)")
	require.Equal(t, before, after, "s3db_version() must be left unchanged by a refresh that changes nothing")
}

// Defect 2. Every version a connection commits carries the time the
// connection opened the table as its creation time (not the time of the
// commit), and vacuum decides by that time. A vacuum whose cutoff lies BEFORE
// a version was committed (so it cannot cover it) deletes that version when
// the connection has been open since before the cutoff.
func TestHunt_VacuumDeletesVersionCommittedAfterItsCutoff(t *testing.T) {
	db, bucket, endpoint := huntOpen(t)
	huntCreate(t, db, "hunt_c", bucket, endpoint, "hunt_c") // table opened here

	// the cutoff is later than the open and earlier than everything below
	cutoff := huntCutoff()

	_, err := db.Exec(`insert into hunt_c values(1,'one')`)
	require.NoError(t, err)
	v1 := huntVersion(t, db, "hunt_c") // committed, and taken, after the cutoff
	rows, err := huntQuery(db, `select * from hunt_c`)
	require.NoError(t, err)
	require.Equal(t, `[[1,"one"]]`, rows)
	got, err := huntRowsAtGo(bucket, endpoint, "hunt_c", v1)
	require.NoError(t, err)
	require.Equal(t, rows, got, "the version is readable to begin with")

	_, err = db.Exec(`insert into hunt_c values(2,'two')`)
	require.NoError(t, err)

	res, err := huntQuery(db, fmt.Sprintf(`select * from s3db_vacuum('hunt_c','%s')`, cutoff))
	require.NoError(t, err)
	require.Equal(t, `[[null]]`, res, "vacuum reports no error")
	t.Logf("version %s was committed after %s; vacuumed with before_time=%s", v1, cutoff, cutoff)

	got, err = huntRowsAtGo(bucket, endpoint, "hunt_c", v1)
	require.NoError(t, err, "version %s did not exist yet at the vacuum's cutoff %s, the cutoff cannot cover it (Go API)", v1, cutoff)
	require.Equal(t, rows, got)
	got, err = huntRowsAtSQL(db, "hunt_c", v1)
	require.NoError(t, err, "version %s did not exist yet at the vacuum's cutoff %s (s3db_changes)", v1, cutoff)
	require.Equal(t, rows, got)
}
