package kv

// Hunt for property C17 ("the key-value layer keeps its documented
// last-write and tombstone rules ... Get, cursors, Diff and TraceHistory
// agree with that").
//
// Every test in this file FAILS on the unchanged code. See NOTES.md in the
// repository root for the analysis.

import (
	"fmt"
	"testing"
	"time"

	"github.com/jrhy/mast/persist/s3test"
	crdtpub "github.com/jrhy/s3db/kv/crdt"
	"github.com/stretchr/testify/assert"
	"github.com/stretchr/testify/require"
)

func huntOpen(t *testing.T, c S3Interface, cfg Config, when time.Time) *DB {
	t.Helper()
	db, err := Open(ctx, c, cfg, OpenOptions{}, when)
	require.NoError(t, err)
	t.Cleanup(db.Cancel)
	return db
}

// huntGet calls DB.Get and turns a panic into an error, so that one test can
// report everything it sees.
func huntGet(db *DB, key interface{}, value interface{}) (ok bool, err error) {
	defer func() {
		if r := recover(); r != nil {
			err = fmt.Errorf("PANIC: %v", r)
		}
	}()
	return db.Get(ctx, key, value)
}

// huntVisible lists what Diff(nil) (the "show everything" form the kv CLI
// uses) reports as visible.
func huntVisible(t *testing.T, db *DB) map[int]string {
	t.Helper()
	res := map[int]string{}
	require.NoError(t, db.Diff(ctx, nil, func(key, myValue, fromValue interface{}) (bool, error) {
		res[key.(int)] = myValue.(string)
		return true, nil
	}))
	return res
}

// A tombstone whose time lies before 1970-01-01 (UnixNano() < 0; this includes
// the zero time.Time{} that s3db.Vacuum itself passes to Tombstone) is a
// tombstone for the merge rule, for IsTombstoned, for Diff and for
// RemoveTombstones (they all test TombstoneSinceEpochNanos != 0), but NOT for
// Get, which tests "> 0" (kv/internal/crdt/crdt.go:367). Get therefore says
// the key is present -- and, when asked for the plain value, panics because
// a tombstone has no value.
func TestHuntTombstoneBeforeEpochIsNotAbsentForGet(t *testing.T) {
	c, bucketName, closer := s3test.Client()
	t.Cleanup(closer)
	cfg := Config{
		Storage:      &S3BucketInfo{c.Endpoint, bucketName, "huntNegativeTombstone"},
		KeysLike:     1234,
		ValuesLike:   "hi",
		BranchFactor: 4,
	}
	// all times are distinct
	tOpen := time.Date(2020, 1, 1, 0, 0, 0, 0, time.UTC)
	tSet := time.Date(2020, 1, 2, 0, 0, 0, 0, time.UTC)
	tTombstone := time.Date(1969, 12, 31, 0, 0, 0, 0, time.UTC) // one day before the epoch
	tOtherSet := time.Date(2020, 1, 3, 0, 0, 0, 0, time.UTC)

	a := huntOpen(t, c, cfg, tOpen)
	require.NoError(t, a.Set(ctx, tSet, 1, "one"))
	require.NoError(t, a.Set(ctx, tSet.Add(time.Second), 2, "two"))
	_, err := a.Commit(ctx)
	require.NoError(t, err)

	// a second writer, started from the same version, will set key 1 later
	b := huntOpen(t, c, cfg, tOpen.Add(time.Second))

	// "a tombstone makes the key absent and beats every value regardless of time"
	require.NoError(t, a.Tombstone(ctx, tTombstone, 1))
	_, err = a.Commit(ctx)
	require.NoError(t, err)

	require.NoError(t, b.Set(ctx, tOtherSet, 1, "one again"))
	_, err = b.Commit(ctx)
	require.NoError(t, err)

	// a third handle merges both versions
	m := huntOpen(t, c, cfg, tOpen.Add(2*time.Second))

	for name, db := range map[string]*DB{"writer": a, "merged": m} {
		// The tombstone rule was applied (by the local update and by the merge) ...
		tombstoned, err := db.IsTombstoned(ctx, 1)
		require.NoError(t, err)
		require.True(t, tombstoned, "%s: IsTombstoned(1)", name)
		// ... Diff agrees that key 1 is absent ...
		require.Equal(t, map[int]string{2: "two"}, huntVisible(t, db), "%s: Diff(nil)", name)
		// ... the cursor shows the entry as a tombstone ...
		cur, err := db.Cursor(ctx)
		require.NoError(t, err)
		require.NoError(t, cur.Min(ctx))
		k, v, ok := cur.Get()
		require.True(t, ok)
		require.Equal(t, 1, k)
		require.True(t, v.Tombstoned(), "%s: cursor entry for key 1 is a tombstone", name)

		// ... but Get does not agree.
		var cv crdtpub.Value
		ok, err = huntGet(db, 1, &cv)
		assert.NoError(t, err, "%s: Get(1, *crdt.Value)", name)
		assert.False(t, ok, "%s: Get(1) reports the tombstoned key as present (got %+v)", name, cv)

		var s string
		ok, err = huntGet(db, 1, &s)
		assert.NoError(t, err, "%s: Get(1, *string) on a tombstoned key", name)
		assert.False(t, ok, "%s: Get(1) reports the tombstoned key as present", name)
	}

	// The same with the zero time, which is what s3db.Vacuum passes
	// (vtable_common.go:972: db.Tombstone(ctx, time.Time{}, k)).
	require.NoError(t, a.Tombstone(ctx, time.Time{}, 3))
	tombstoned, err := a.IsTombstoned(ctx, 3)
	require.NoError(t, err)
	require.True(t, tombstoned, "IsTombstoned(3)")
	var cv crdtpub.Value
	ok, err := huntGet(a, 3, &cv)
	assert.NoError(t, err)
	assert.False(t, ok, "Get(3) after Tombstone(time.Time{}, 3) reports the key as present (got %+v)", cv)
}

// Tombstone() at exactly 1970-01-01T00:00:00Z stores TombstoneSinceEpochNanos
// == 0, which every reader takes for "not a tombstone": over an existing value
// the call is silently ignored (it loses last-write-wins as a value with time
// 0), on a fresh key it stores a present entry without a value.
func TestHuntTombstoneAtEpochIsIgnored(t *testing.T) {
	c, bucketName, closer := s3test.Client()
	t.Cleanup(closer)
	cfg := Config{
		Storage:      &S3BucketInfo{c.Endpoint, bucketName, "huntEpochTombstone"},
		KeysLike:     1234,
		ValuesLike:   "hi",
		BranchFactor: 4,
	}
	a := huntOpen(t, c, cfg, time.Unix(1000, 0))
	require.NoError(t, a.Set(ctx, time.Unix(2000, 0), 1, "one"))
	_, err := a.Commit(ctx)
	require.NoError(t, err)

	require.NoError(t, a.Tombstone(ctx, time.Unix(0, 0), 1)) // existing value
	require.NoError(t, a.Tombstone(ctx, time.Unix(0, 0), 2)) // never set
	_, err = a.Commit(ctx)
	require.NoError(t, err)

	for _, key := range []int{1, 2} {
		tombstoned, err := a.IsTombstoned(ctx, key)
		require.NoError(t, err)
		assert.True(t, tombstoned, "IsTombstoned(%d) after Tombstone(%d)", key, key)
		var s string
		ok, err := huntGet(a, key, &s)
		assert.NoError(t, err, "Get(%d) after Tombstone(%d)", key, key)
		assert.False(t, ok, "Get(%d) after Tombstone(%d): a tombstone beats every value regardless of time, got %q", key, key, s)
	}
}

// The kv cursor walked backwards (Max, then Backward) must visit the same
// entries as walked forwards, i.e. every key that Get finds. On a tree with
// more than one level, Backward decides whether to descend into the subtree
// left of the current entry by looking at the node's FIRST link instead of
// the link next to the entry (mast pub.go:846): it skips the subtree (keys
// 5,6,7 below) or fails with "unknown link type <nil>".
func TestHuntCursorBackwardSkipsEntries(t *testing.T) {
	c, bucketName, closer := s3test.Client()
	t.Cleanup(closer)
	for i, keys := range [][]int{
		{5, 6, 7, 4, 8}, // root [4 8], children: nil, [5 6 7], nil
		{1, 2, 3, 4, 8}, // root [4 8], children: [1 2 3], nil, nil
	} {
		cfg := Config{
			Storage:      &S3BucketInfo{c.Endpoint, bucketName, fmt.Sprintf("huntBackward%d", i)},
			KeysLike:     1234,
			ValuesLike:   "hi",
			BranchFactor: 4,
		}
		s := huntOpen(t, c, cfg, time.Unix(1000, 0))
		for j, k := range keys {
			require.NoError(t, s.Set(ctx, time.Unix(int64(2000+j), 0), k, "v"))
		}
		_, err := s.Commit(ctx)
		require.NoError(t, err)

		var forward []int
		cur, err := s.Cursor(ctx)
		require.NoError(t, err)
		require.NoError(t, cur.Min(ctx))
		for {
			k, _, ok := cur.Get()
			if !ok {
				break
			}
			forward = append(forward, k.(int))
			require.NoError(t, cur.Forward(ctx))
		}

		var backward []int
		cur, err = s.Cursor(ctx)
		require.NoError(t, err)
		require.NoError(t, cur.Max(ctx))
		for {
			k, _, ok := cur.Get()
			if !ok {
				break
			}
			backward = append([]int{k.(int)}, backward...)
			if !assert.NoError(t, cur.Backward(ctx), "keys %v: Backward from %v", keys, k) {
				break
			}
		}
		assert.Equal(t, forward, backward, "keys %v: entries seen walking backwards vs forwards", keys)
	}
}
