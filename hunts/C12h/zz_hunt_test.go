package mod_test

// Hunt for violations of property C12 (s3db_changes reports exactly the rows
// that differ between two versions). See NOTES.md at the top of the worktree.

import (
	"database/sql"
	"fmt"
	"net/http"
	"net/http/httptest"
	"net/http/httputil"
	"net/url"
	"strings"
	"sync"
	"testing"

	"github.com/jrhy/mast/persist/s3test"
	"github.com/stretchr/testify/require"
)

// huntQuery runs a query and returns its rows as JSON, or the error that the
// query or the iteration over its rows reported.
func huntQuery(db *sql.DB, q string) (res string, err error) {
	defer func() {
		if r := recover(); r != nil {
			err = fmt.Errorf("panic: %v", r)
		}
	}()
	rows, err := db.Query(q)
	if err != nil {
		return "", err
	}
	defer rows.Close()
	out := mustJSON(mustGetRows(rows))
	if err := rows.Err(); err != nil {
		return out, err
	}
	return out, nil
}

// DEFECT 1 (main finding).
//
// A cursor on an s3db_changes table creates its diff cursor in xOpen and
// xFilter only advances it. SQLite calls xFilter again on the SAME cursor
// whenever it rescans the table: for every outer row when s3db_changes is
// the inner table of a join, and for every evaluation of a correlated
// subquery. The second and later scans continue where the previous one
// stopped (usually at the end), so they return no rows, or only a tail.
//
// The rows of s3db_changes(from=v1,to=v2) are then NOT "every row visible in
// B that is absent from A or differs from A": in the queries below rows 2
// and 3 (inserted between v1 and v2) are missing from all scans but the first.
func TestHunt_ChangesRescanReturnsNoRows(t *testing.T) {
	db, s3Bucket, s3Endpoint := openDB()
	defer db.Close()
	db.SetMaxOpenConns(1)

	_, err := db.Exec(fmt.Sprintf(`create virtual table hunt_data using s3db (
s3_prefix='hunt_rescan',
s3_bucket='%s',
s3_endpoint='%s',
columns='a primary key, b')`, s3Bucket, s3Endpoint))
	require.NoError(t, err)

	_, err = db.Exec(`insert into hunt_data values(1,'one')`)
	require.NoError(t, err)
	v1 := mustQueryVersion(db, "hunt_data")
	_, err = db.Exec(`insert into hunt_data values(2,'two'),(3,'three')`)
	require.NoError(t, err)
	v2 := mustQueryVersion(db, "hunt_data")

	_, err = db.Exec(fmt.Sprintf(`create virtual table hunt_changes using s3db_changes (
table='hunt_data', from='%s', to='%s')`, v1, v2))
	require.NoError(t, err)

	// a single scan is right: rows 2 and 3 were added between v1 and v2
	got, err := huntQuery(db, `select * from hunt_changes`)
	require.NoError(t, err)
	require.Equal(t, `[[2,"two"],[3,"three"]]`, got)

	// The oracle for the other statement shapes: the very same rows, copied
	// to an ordinary table.
	_, err = db.Exec(`create table hunt_copy as select * from hunt_changes`)
	require.NoError(t, err)
	// an ordinary table to drive the outer loop
	_, err = db.Exec(`create table hunt_ids(id)`)
	require.NoError(t, err)
	_, err = db.Exec(`insert into hunt_ids values (1),(2),(3)`)
	require.NoError(t, err)

	for _, q := range []struct{ name, sql string }{
		{"left join", // "which of these ids changed?"
			`select i.id, c.b from hunt_ids i left join %s c on c.a = i.id order by 1`},
		{"correlated exists",
			`select i.id, exists(select 1 from %s c where c.a = i.id) from hunt_ids i order by 1`},
		{"correlated count",
			`select i.id, (select count(*) from %s c where c.a >= i.id) from hunt_ids i order by 1`},
		{"cross join",
			`select i.id, c.a from hunt_ids i cross join %s c order by 1, 2`},
	} {
		want, err := huntQuery(db, fmt.Sprintf(q.sql, "hunt_copy"))
		require.NoError(t, err)
		got, err := huntQuery(db, fmt.Sprintf(q.sql, "hunt_changes"))
		if err != nil {
			t.Errorf("%s: query failed: %v", q.name, err)
			continue
		}
		if got != want {
			t.Errorf("%s: s3db_changes(from=v1,to=v2) lost changed rows when scanned more than once in a statement\n"+
				" query: %s\n"+
				"  want: %s  (same query over a plain copy of the changed rows)\n"+
				"   got: %s",
				q.name, fmt.Sprintf(q.sql, "hunt_changes"), want, got)
		}
	}
}

// huntFailOnce is an HTTP proxy in front of the in-memory S3 server that
// answers exactly ONE matching GET with "404 NoSuchKey" and forwards
// everything else untouched.
type huntFailOnce struct {
	mu    sync.Mutex
	match string // suffix of the request path; "" = disarmed
	hits  int
	rp    *httputil.ReverseProxy
}

func (p *huntFailOnce) ServeHTTP(w http.ResponseWriter, r *http.Request) {
	p.mu.Lock()
	if p.match != "" && r.Method == "GET" && strings.HasSuffix(r.URL.Path, p.match) {
		p.match = ""
		p.hits++
		p.mu.Unlock()
		w.Header().Set("Content-Type", "application/xml")
		w.WriteHeader(404)
		fmt.Fprint(w, `<?xml version="1.0" encoding="UTF-8"?><Error><Code>NoSuchKey</Code><Message>injected fault</Message></Error>`)
		return
	}
	p.mu.Unlock()
	p.rp.ServeHTTP(w, r)
}

// DEFECT 2 (secondary; only when "to" is left out, so that it means "the
// current version(s) in the bucket").
//
// A single GET of the current version's root object answered with NoSuchKey
// makes the open of "to" skip that version as if it had been vacuumed away
// (kv.Open with skipUnreadable). "to" is then an empty table, every row
// counts as deleted, and the query returns NO rows and NO error, although the
// version is there and has three changed rows.
func TestHunt_ChangesDefaultToSilentlyEmptyOnOne404(t *testing.T) {
	db, err := sql.Open("sqlite3", ":memory:")
	require.NoError(t, err)
	defer db.Close()
	db.SetMaxOpenConns(1)
	c, s3Bucket, _ := s3test.Client()
	target, err := url.Parse(c.Endpoint)
	require.NoError(t, err)
	px := &huntFailOnce{rp: httputil.NewSingleHostReverseProxy(target)}
	srv := httptest.NewServer(px)
	defer srv.Close()

	_, err = db.Exec(fmt.Sprintf(`create virtual table hunt_fdata using s3db (
s3_prefix='hunt_fault',
s3_bucket='%s',
s3_endpoint='%s',
columns='a primary key, b')`, s3Bucket, srv.URL))
	require.NoError(t, err)
	_, err = db.Exec(`insert into hunt_fdata values(1,'one')`)
	require.NoError(t, err)
	v1 := mustQueryVersion(db, "hunt_fdata")
	tx, err := db.Begin()
	require.NoError(t, err)
	_, err = tx.Exec(`insert into hunt_fdata values(2,'two'),(3,'three')`)
	require.NoError(t, err)
	_, err = tx.Exec(`update hunt_fdata set b='ONE' where a=1`)
	require.NoError(t, err)
	require.NoError(t, tx.Commit())
	v2 := mustQueryVersion(db, "hunt_fdata") // ["<name>"]
	v2name := strings.Trim(v2, `[]"`)

	// "to" omitted: the current version(s) in the bucket, here exactly v2
	_, err = db.Exec(fmt.Sprintf(`create virtual table hunt_fchanges using s3db_changes (
table='hunt_fdata', from='%s')`, v1))
	require.NoError(t, err)

	const want = `[[1,"ONE"],[2,"two"],[3,"three"]]`
	got, err := huntQuery(db, `select * from hunt_fchanges`)
	require.NoError(t, err)
	require.Equal(t, want, got, "without a fault")

	// one GET of v2's root object fails once with NoSuchKey
	px.mu.Lock()
	px.match = "/root/current/" + v2name
	px.mu.Unlock()
	got, err = huntQuery(db, `select * from hunt_fchanges`)
	px.mu.Lock()
	hits := px.hits
	px.mu.Unlock()
	require.Equal(t, 1, hits, "the fault was injected exactly once")
	if err == nil && got != want {
		t.Errorf("one failed read of version %s: the query did not fail and returned a partial (empty) answer\n"+
			" want: an error, or %s\n"+
			"  got: %s, err=nil", v2name, want, got)
	}

	// and afterwards (no fault) the full answer is back: nothing was vacuumed
	got, err = huntQuery(db, `select * from hunt_fchanges`)
	require.NoError(t, err)
	require.Equal(t, want, got, "after the fault")
}
