// verif: runner for the deterministic-simulation checks.
//
//	verif build
//	verif check <property> [--tier quick|thorough] [--seed N] [--runs N] [--family F]
//	verif replay <program.json>
//	verif shrink <program.json> <out.json>
//
// Exit codes: 0 property held on everything explored, 1 violation (a line
// "VIOLATION property=<id> replay=<path>" is printed), 2 machinery trouble.
package main

import (
	"bufio"
	"bytes"
	"encoding/json"
	"fmt"
	"os"
	"os/exec"
	"path/filepath"
	"regexp"
	"runtime"
	"sort"
	"strconv"
	"strings"
	"sync"
	"time"
)

var root = "/verif"

type PropMeta struct {
	Level       string   `json:"level"`
	Rule        string   `json:"rule"`
	Quick       int      `json:"quick"`
	Thorough    int      `json:"thorough"`
	Race        bool     `json:"race,omitempty"`
	Assumptions []string `json:"assumptions"`
	NeedProbes  []string `json:"need_probes,omitempty"` // thorough tier fails with exit 2 when one of these stays at zero
	Technique   string   `json:"technique"`
	Text        string   `json:"text"`
	Note        string   `json:"note"`
	DesignRef   string   `json:"design_ref"`
}

type Violation struct {
	Class  string `json:"class"`
	Detail string `json:"detail"`
}

type Result struct {
	Property   string          `json:"property"`
	Family     string          `json:"family"`
	Seed       uint64          `json:"seed"`
	Violation  *Violation      `json:"violation,omitempty"`
	Invalid    bool            `json:"invalid,omitempty"`
	LogHash    string          `json:"log_hash"`
	Events     int             `json:"events"`
	Steps      int             `json:"steps"`
	SimNs      int64           `json:"sim_ns"`
	Bubbles    int             `json:"bubbles"`
	Checks     int             `json:"checks"`
	Faults     map[string]int  `json:"faults,omitempty"`
	Probes     map[string]int  `json:"probes,omitempty"`
	Sig        string          `json:"sig"`
	Nontrivial bool            `json:"nontrivial"`
	Program    json.RawMessage `json:"program,omitempty"`
	WallMs     int64           `json:"wall_ms"`
	Done       bool            `json:"done,omitempty"`
	Restart    *int64          `json:"restart_from,omitempty"`
}

type Finding struct {
	ID       string   `json:"id"`
	Property string   `json:"property"`
	Status   string   `json:"status"` // open | fixed
	What     string   `json:"what"`
	Witness  string   `json:"witness"`
	Class    string   `json:"class,omitempty"`
	Match    string   `json:"match,omitempty"` // regexp over the violation detail (open findings only)
	Commit   string   `json:"commit,omitempty"`
	Also     []string `json:"also,omitempty"` // further properties whose checks can run into this finding
}

func (f Finding) appliesTo(prop string) bool {
	if f.Property == prop {
		return true
	}
	for _, p := range f.Also {
		if p == prop {
			return true
		}
	}
	return false
}

func die(code int, format string, args ...interface{}) {
	fmt.Fprintf(os.Stderr, format+"\n", args...)
	os.Exit(code)
}

func goEnv() []string {
	env := os.Environ()
	env = append(env, "GOFLAGS=-mod=mod", "GOPROXY=off", "GOSUMDB=off", "GOTOOLCHAIN=local", "CGO_ENABLED=1")
	return env
}

func goBin() string {
	for _, c := range []string{"go1.26.8", "/opt/veriftools/go1.26.8/bin/go"} {
		if p, err := exec.LookPath(c); err == nil {
			return p
		}
	}
	return "go"
}

// build compiles the simulator test binary against /repo's current working tree.
func build(race bool) string {
	os.MkdirAll(filepath.Join(root, ".build"), 0o755)
	// go.sum: union of the committed one and /repo's current one
	sums := map[string]bool{}
	for _, p := range []string{filepath.Join(root, "sim/go.sum"), "/repo/go.sum"} {
		if b, err := os.ReadFile(p); err == nil {
			for _, l := range strings.Split(string(b), "\n") {
				if strings.TrimSpace(l) != "" {
					sums[l] = true
				}
			}
		}
	}
	var lines []string
	for l := range sums {
		lines = append(lines, l)
	}
	sort.Strings(lines)
	os.WriteFile(filepath.Join(root, "sim/go.sum"), []byte(strings.Join(lines, "\n")+"\n"), 0o644)
	out := filepath.Join(root, ".build/sim.test")
	args := []string{"test", "-c", "-tags", "verif", "-o", out}
	if race {
		out = filepath.Join(root, ".build/sim.race.test")
		args = []string{"test", "-c", "-race", "-tags", "verif", "-o", out}
	}
	if alt := os.Getenv("VERIF_REPO"); alt != "" && alt != "/repo" {
		// development aid: build against a scratch copy of the repository
		b, _ := os.ReadFile(filepath.Join(root, "sim/go.mod"))
		mod := strings.Replace(string(b), "=> /repo", "=> "+alt, 1)
		mf := filepath.Join(root, ".build/alt.mod")
		os.WriteFile(mf, []byte(mod), 0o644)
		sb, _ := os.ReadFile(filepath.Join(root, "sim/go.sum"))
		os.WriteFile(filepath.Join(root, ".build/alt.sum"), sb, 0o644)
		args = append(args, "-modfile", mf)
	}
	args = append(args, ".")
	cmd := exec.Command(goBin(), args...)
	cmd.Dir = filepath.Join(root, "sim")
	cmd.Env = goEnv()
	var buf bytes.Buffer
	cmd.Stdout, cmd.Stderr = &buf, &buf
	if err := cmd.Run(); err != nil {
		fmt.Fprintf(os.Stderr, "%s", buf.String())
		die(2, "BUILD-FAILED: cannot build the simulator against /repo: %v", err)
	}
	return out
}

type workerOut struct {
	results  []Result
	crashed  bool
	lastSeed string // START without END
	stderr   string
}

func runWorker(bin string, env map[string]string, timeout time.Duration) workerOut {
	tmp, _ := os.CreateTemp(filepath.Join(root, ".build"), "out-*.jsonl")
	tmp.Close()
	defer os.Remove(tmp.Name())
	cmd := exec.Command(bin, "-test.run", "^TestWorker$", "-test.timeout", "0", "-test.count", "1")
	cmd.Dir = filepath.Join(root, "sim")
	// race build: stop at the first report so that it is attributed to the run in progress (START without END)
	cmd.Env = append(os.Environ(), "VERIF_OUT="+tmp.Name(), "GORACE=halt_on_error=1 exitcode=66")
	for k, v := range env {
		cmd.Env = append(cmd.Env, k+"="+v)
	}
	var errb bytes.Buffer
	cmd.Stderr = &errb
	cmd.Stdout = &errb
	done := make(chan error, 1)
	if err := cmd.Start(); err != nil {
		return workerOut{crashed: true, stderr: err.Error()}
	}
	go func() { done <- cmd.Wait() }()
	var err error
	select {
	case err = <-done:
	case <-time.After(timeout):
		cmd.Process.Signal(os.Interrupt)
		time.Sleep(200 * time.Millisecond)
		cmd.Process.Kill()
		err = fmt.Errorf("worker timeout after %v", timeout)
		<-done
	}
	var wo workerOut
	wo.stderr = errb.String()
	if b, e := os.ReadFile(tmp.Name()); e == nil {
		sc := bufio.NewScanner(bytes.NewReader(b))
		sc.Buffer(make([]byte, 1<<20), 1<<28)
		for sc.Scan() {
			var r Result
			if json.Unmarshal(sc.Bytes(), &r) == nil {
				wo.results = append(wo.results, r)
			}
		}
	}
	// race reports
	if matches, _ := filepath.Glob(tmp.Name() + ".race*"); len(matches) > 0 {
		for _, m := range matches {
			if b, e := os.ReadFile(m); e == nil && len(b) > 0 {
				wo.stderr += "\n" + string(b)
			}
			os.Remove(m)
		}
	}
	finished := false
	for _, r := range wo.results {
		if r.Done || r.Restart != nil {
			finished = true
		}
	}
	if err != nil || !finished {
		wo.crashed = true
		// find the START without END
		var last string
		for _, l := range strings.Split(wo.stderr, "\n") {
			if strings.HasPrefix(l, "START ") {
				last = strings.TrimPrefix(l, "START ")
			} else if strings.HasPrefix(l, "END ") {
				last = ""
			}
		}
		wo.lastSeed = last
		if err != nil && wo.stderr == "" {
			wo.stderr = err.Error()
		}
	}
	return wo
}

func loadFindings() []Finding {
	var fs []Finding
	b, err := os.ReadFile(filepath.Join(root, "known_findings.json"))
	if err != nil {
		return nil
	}
	if err := json.Unmarshal(b, &fs); err != nil {
		die(2, "known_findings.json: %v", err)
	}
	return fs
}

func loadProps() map[string]PropMeta {
	var m map[string]PropMeta
	b, err := os.ReadFile(filepath.Join(root, "props.json"))
	if err != nil {
		die(2, "props.json: %v", err)
	}
	if err := json.Unmarshal(b, &m); err != nil {
		die(2, "props.json: %v", err)
	}
	return m
}

func replayOnce(bin, path string) (*Result, workerOut) {
	wo := runWorker(bin, map[string]string{"VERIF_MODE": "replay", "VERIF_PROGRAM": path}, 10*time.Minute)
	for i := range wo.results {
		if !wo.results[i].Done && wo.results[i].Restart == nil {
			return &wo.results[i], wo
		}
	}
	return nil, wo
}

func tailLines(s string, n int) string {
	lines := strings.Split(strings.TrimRight(s, "\n"), "\n")
	if len(lines) > n {
		lines = lines[len(lines)-n:]
	}
	return strings.Join(lines, "\n")
}

func main() {
	if len(os.Args) < 2 {
		die(2, "usage: verif build | check <prop> [--tier T] | replay <file> | shrink <in> <out>")
	}
	if r := os.Getenv("VERIF_ROOT"); r != "" {
		root = r
	} else if exe, err := os.Executable(); err == nil {
		// <root>/bin/verif: work in the tree this binary was built in (a snapshot under `vp run` must not touch /verif)
		if d := filepath.Dir(filepath.Dir(exe)); filepath.Base(filepath.Dir(exe)) == "bin" {
			if _, err := os.Stat(filepath.Join(d, "props.json")); err == nil {
				root = d
			}
		}
	}
	switch os.Args[1] {
	case "build":
		build(false)
		fmt.Println("built", filepath.Join(root, ".build/sim.test"))
		if len(os.Args) > 2 && os.Args[2] == "--race" {
			build(true)
			fmt.Println("built", filepath.Join(root, ".build/sim.race.test"))
		}
	case "replay":
		if len(os.Args) < 3 {
			die(2, "usage: verif replay <program.json>")
		}
		race := false
		progProp := "?"
		if b, err := os.ReadFile(os.Args[2]); err == nil {
			var p struct{ Property string }
			json.Unmarshal(b, &p)
			race = loadProps()[p.Property].Race
			if p.Property != "" {
				progProp = p.Property
			}
		}
		bin := build(race)
		abs, _ := filepath.Abs(os.Args[2])
		res, wo := replayOnce(bin, abs)
		if res == nil {
			fmt.Println(tailLines(wo.stderr, 40))
			if wo.crashed {
				fmt.Printf("VIOLATION property=%s replay=%s (process died during replay)\n", progProp, abs)
				os.Exit(1)
			}
			die(2, "replay produced no result")
		}
		fmt.Printf("log_hash=%s events=%d steps=%d\n", res.LogHash, res.Events, res.Steps)
		if res.Violation != nil {
			fmt.Printf("%s: %s\n", res.Violation.Class, res.Violation.Detail)
			fmt.Printf("VIOLATION property=%s replay=%s\n", res.Property, abs)
			os.Exit(1)
		}
		fmt.Println("no violation")
	case "shrink":
		if len(os.Args) < 4 {
			die(2, "usage: verif shrink <in> <out>")
		}
		bin := build(false)
		in, _ := filepath.Abs(os.Args[2])
		out, _ := filepath.Abs(os.Args[3])
		wo := runWorker(bin, map[string]string{"VERIF_MODE": "shrink", "VERIF_PROGRAM": in, "VERIF_SHRUNK": out, "VERIF_SHRINK_S": "120"}, 10*time.Minute)
		if wo.crashed {
			fmt.Println(tailLines(wo.stderr, 30))
			die(2, "shrink worker died")
		}
		fmt.Println("wrote", out)
	case "check":
		check(os.Args[2:])
	default:
		die(2, "unknown command %s", os.Args[1])
	}
}

func check(args []string) {
	if len(args) < 1 {
		die(2, "usage: verif check <prop> [--tier T]")
	}
	prop := args[0]
	tier := os.Getenv("VERIF_TIER")
	if tier == "" {
		tier = "quick"
	}
	seed := int64(1)
	if s := os.Getenv("VERIF_SEED"); s != "" {
		if v, err := strconv.ParseInt(s, 10, 64); err == nil {
			seed = v
		}
	}
	runs := 0
	family := ""
	for i := 1; i < len(args); i++ {
		switch args[i] {
		case "--tier":
			i++
			tier = args[i]
		case "--seed":
			i++
			seed, _ = strconv.ParseInt(args[i], 10, 64)
		case "--runs":
			i++
			runs, _ = strconv.Atoi(args[i])
		case "--family":
			i++
			family = args[i]
		}
	}
	if tier != "quick" && tier != "thorough" {
		die(2, "tier must be quick or thorough")
	}
	metas := loadProps()
	meta, ok := metas[prop]
	if !ok {
		die(2, "property %s is not claimed (see MANIFEST.json not_applicable)", prop)
	}
	if runs == 0 {
		runs = meta.Quick
		if tier == "thorough" {
			runs = meta.Thorough
		}
	}
	start := time.Now()
	bin := build(meta.Race)
	buildS := time.Since(start).Seconds()
	os.MkdirAll(filepath.Join(root, "replays"), 0o755)
	os.MkdirAll(filepath.Join(root, "evidence"), 0o755)

	violations := 0
	var knownLines []string
	reportViolation := func(path, class, detail string) {
		violations++
		fmt.Printf("%s: %s\n", class, firstLines(detail, 12))
		fmt.Printf("VIOLATION property=%s replay=%s\n", prop, path)
	}

	// 1. witnesses: fixed findings must pass, open findings are announced while they still fail
	findings := loadFindings()
	witnessRuns := 0
	for _, f := range findings {
		if !f.appliesTo(prop) || f.Witness == "" {
			continue
		}
		wp := filepath.Join(root, f.Witness)
		res, wo := replayOnce(bin, wp)
		witnessRuns++
		failed := wo.crashed || (res != nil && res.Violation != nil)
		class, detail := "process-crash", tailLines(wo.stderr, 15)
		if res != nil && res.Violation != nil {
			class, detail = res.Violation.Class, res.Violation.Detail
		}
		if res == nil && !wo.crashed {
			die(2, "witness %s produced no result:\n%s", f.Witness, tailLines(wo.stderr, 20))
		}
		switch f.Status {
		case "fixed":
			if failed {
				reportViolation(wp, class, "regression of fixed finding "+f.ID+" ("+f.What+"): "+detail)
			}
		case "open":
			if failed && matches(f, class, detail) {
				knownLines = append(knownLines, fmt.Sprintf("KNOWN-FINDING: property=%s %s [%s]", prop, f.What, f.ID))
			} else if failed {
				reportViolation(wp, class, "witness of "+f.ID+" now fails differently: "+detail)
			}
		}
	}
	for _, l := range knownLines {
		fmt.Println(l)
	}

	// 2. seeded search
	nw := runtime.NumCPU()
	if nw > 16 {
		nw = 16
	}
	if nw > runs {
		nw = runs
	}
	if nw < 1 {
		nw = 1
	}
	perRunTimeout := 20 * time.Minute
	if tier == "thorough" {
		perRunTimeout = 3 * time.Hour
	}
	var mu sync.Mutex
	var all []Result
	var crashes []string
	var wg sync.WaitGroup
	for wi := 0; wi < nw; wi++ {
		wg.Add(1)
		go func(wi int) {
			defer wg.Done()
			first := int64(wi)
			for attempts := 0; first < int64(runs) && attempts < 50; attempts++ {
				env := map[string]string{"VERIF_MODE": "gen", "VERIF_PROP": prop, "VERIF_TIER": tier, "VERIF_SEED": fmt.Sprint(seed),
					"VERIF_FIRST": fmt.Sprint(first), "VERIF_STRIDE": fmt.Sprint(nw), "VERIF_COUNT": fmt.Sprint(runs), "VERIF_FAMILY": family}
				wo := runWorker(bin, env, perRunTimeout)
				mu.Lock()
				var restart *int64
				n := 0
				for _, r := range wo.results {
					if r.Restart != nil {
						restart = r.Restart
					} else if !r.Done {
						all = append(all, r)
						n++
					}
				}
				mu.Unlock()
				if restart != nil {
					first = *restart
					continue
				}
				if !wo.crashed {
					return
				}
				// the process died inside a run: attribute it to the seed that had started
				mu.Lock()
				crashes = append(crashes, fmt.Sprintf("%s\n%s", wo.lastSeed, tailLines(wo.stderr, 400)))
				mu.Unlock()
				first += int64(n+1) * int64(nw)
			}
		}(wi)
	}
	wg.Wait()

	// 3. process crashes: confirm by re-running that one seed in a fresh process
	sort.Strings(crashes)
	for ci, c := range crashes {
		if ci >= 3 {
			fmt.Printf("(%d further worker crashes not confirmed individually)\n", len(crashes)-3)
			break
		}
		parts := strings.SplitN(c, "\n", 2)
		if parts[0] == "" {
			fmt.Fprintf(os.Stderr, "worker died outside a run:\n%s\n", tailLines(parts[1], 40))
			die(2, "WORKER-TROUBLE")
		}
		s, _ := strconv.ParseUint(parts[0], 10, 64)
		idx := int64(s - uint64(seed)*1000003)
		env := map[string]string{"VERIF_MODE": "gen", "VERIF_PROP": prop, "VERIF_TIER": tier, "VERIF_SEED": fmt.Sprint(seed),
			"VERIF_FIRST": fmt.Sprint(idx), "VERIF_STRIDE": "1", "VERIF_COUNT": fmt.Sprint(idx + 1), "VERIF_FAMILY": family}
		wo := runWorker(bin, env, 10*time.Minute)
		isRace := strings.Contains(parts[1], "DATA RACE")
		for try := 0; isRace && !wo.crashed && try < 4; try++ {
			// a race report is a true positive, but whether the detector sees it again depends on real thread timing
			wo = runWorker(bin, env, 10*time.Minute)
		}
		if isRace && !wo.crashed {
			wo.crashed = true
			wo.stderr = "(data race reported in the batch run; not reported again in 5 replays of the seed alone)\n" + parts[1]
		}
		if wo.crashed {
			// write the program out for the replay file
			path := filepath.Join(root, "replays", fmt.Sprintf("%s-%d-crash.json", prop, s))
			envE := map[string]string{"VERIF_MODE": "emit", "VERIF_PROP": prop, "VERIF_TIER": tier, "VERIF_SEED": fmt.Sprint(seed),
				"VERIF_FIRST": fmt.Sprint(idx), "VERIF_FAMILY": family, "VERIF_PROGRAM": path}
			runWorker(bin, envE, time.Minute)
			detail := tailLines(wo.stderr, 25)
			if isRace {
				detail = raceSummary(wo.stderr)
			}
			if kf := matchKnown(findings, prop, "process-crash", detail); kf != nil {
				fmt.Printf("KNOWN-FINDING: property=%s %s [%s]\n", prop, kf.What, kf.ID)
			} else {
				reportViolation(path, "process-crash", detail)
			}
		} else {
			fmt.Fprintf(os.Stderr, "worker died at seed %s but the seed passes alone:\n%s\n", parts[0], tailLines(parts[1], 30))
			die(2, "WORKER-TROUBLE (not reproducible)")
		}
	}

	// 4. violations found by search: shrink, confirm in a fresh process, classify
	sort.Slice(all, func(i, j int) bool { return all[i].Seed < all[j].Seed })
	byClass := map[string][]Result{}
	for _, r := range all {
		if r.Violation != nil {
			byClass[r.Violation.Class] = append(byClass[r.Violation.Class], r)
		}
	}
	var classes []string
	for c := range byClass {
		classes = append(classes, c)
	}
	sort.Strings(classes)
	for _, c := range classes {
		rs := byClass[c]
		reported := 0
		for _, r := range rs {
			if reported >= 2 {
				break
			}
			// The shrinker keeps the violation class, and known findings are matched by
			// class (the shape of the mismatch) and detail pattern: a violation that already
			// matches an open finding is announced once and not minimised again.
			if kf := matchKnown(findings, prop, c, r.Violation.Detail); kf != nil {
				line := fmt.Sprintf("KNOWN-FINDING: property=%s %s [%s]", prop, kf.What, kf.ID)
				dup := false
				for _, l := range knownLines {
					if l == line {
						dup = true
					}
				}
				if !dup {
					knownLines = append(knownLines, line)
					fmt.Println(line)
				}
				break
			}
			orig := filepath.Join(root, "replays", fmt.Sprintf("%s-%d-orig.json", prop, r.Seed))
			os.WriteFile(orig, indent(r.Program), 0o644)
			min := filepath.Join(root, "replays", fmt.Sprintf("%s-%d.json", prop, r.Seed))
			wo := runWorker(bin, map[string]string{"VERIF_MODE": "shrink", "VERIF_PROGRAM": orig, "VERIF_SHRUNK": min, "VERIF_SHRINK_S": "45"}, 5*time.Minute)
			if wo.crashed {
				os.WriteFile(min, indent(r.Program), 0o644)
			}
			res, wo2 := replayOnce(bin, min)
			class, detail := c, r.Violation.Detail
			if res != nil && res.Violation != nil {
				class, detail = res.Violation.Class, res.Violation.Detail
			} else if wo2.crashed {
				class, detail = "process-crash", tailLines(wo2.stderr, 25)
			} else {
				// minimised file does not reproduce in a fresh process: fall back to the original
				res, wo2 = replayOnce(bin, orig)
				if res != nil && res.Violation != nil {
					min, class, detail = orig, res.Violation.Class, res.Violation.Detail
				} else {
					fmt.Fprintf(os.Stderr, "violation %s at seed %d did not reproduce from its replay file\n%s\n", c, r.Seed, tailLines(wo2.stderr, 10))
					die(2, "NOT-REPRODUCIBLE")
				}
			}
			if kf := matchKnown(findings, prop, class, detail); kf != nil {
				line := fmt.Sprintf("KNOWN-FINDING: property=%s %s [%s]", prop, kf.What, kf.ID)
				dup := false
				for _, l := range knownLines {
					if l == line {
						dup = true
					}
				}
				if !dup {
					knownLines = append(knownLines, line)
					fmt.Println(line)
				}
				continue
			}
			reportViolation(min, class, detail)
			reported++
		}
	}

	// 5. evidence
	wall := time.Since(start).Seconds()
	ev := buildEvidence(prop, tier, seed, meta, all, witnessRuns, wall, buildS, violations, knownLines)
	b, _ := json.MarshalIndent(ev, "", " ")
	os.WriteFile(filepath.Join(root, "evidence", prop+".json"), append(b, '\n'), 0o644)
	cov := ev["coverage"].(map[string]interface{})
	fmt.Printf("%s %s: runs=%v distinct_nontrivial=%v checks=%v violations=%d wall=%.1fs\n", prop, tier, cov["evaluations"], cov["distinct_nontrivial"], cov["oracle_checks"], violations, wall)
	if violations > 0 {
		os.Exit(1)
	}
	if len(all) == 0 {
		die(2, "no run completed")
	}
	if tier == "thorough" {
		probes := cov["probes"].(map[string]int)
		for _, p := range meta.NeedProbes {
			if probes[p] == 0 {
				die(2, "COVERAGE-TROUBLE: probe %q never fired in a thorough run", p)
			}
		}
	}
}

const staleSuffix = "-after-stale-cached-node"

func matches(f Finding, class, detail string) bool {
	if f.Class != "" {
		cre, err := regexp.Compile("^(?:" + f.Class + ")$")
		if err != nil {
			die(2, "known_findings.json: bad class regexp in %s: %v", f.ID, err)
		}
		// a run in which the node cache served a modified node gets a class
		// suffix (sim/prog.go staleSuffix); findings recorded by symptom alone
		// match with or without it
		if !cre.MatchString(class) && !(strings.HasSuffix(class, staleSuffix) && cre.MatchString(strings.TrimSuffix(class, staleSuffix))) {
			return false
		}
	}
	if f.Match == "" {
		return true
	}
	re, err := regexp.Compile("(?s)" + f.Match)
	if err != nil {
		die(2, "known_findings.json: bad regexp in %s: %v", f.ID, err)
	}
	return re.MatchString(detail)
}

func matchKnown(fs []Finding, prop, class, detail string) *Finding {
	for i := range fs {
		f := &fs[i]
		if f.appliesTo(prop) && f.Status == "open" && f.Class != "" && matches(*f, class, detail) {
			return f
		}
	}
	return nil
}

func firstLines(s string, n int) string {
	lines := strings.Split(s, "\n")
	if len(lines) > n {
		lines = append(lines[:n], "...")
	}
	return strings.Join(lines, "\n")
}

func indent(raw json.RawMessage) []byte {
	var buf bytes.Buffer
	if json.Indent(&buf, raw, "", " ") != nil {
		return raw
	}
	buf.WriteByte('\n')
	return buf.Bytes()
}

func buildEvidence(prop, tier string, seed int64, meta PropMeta, all []Result, witnessRuns int, wall, buildS float64, violations int, known []string) map[string]interface{} {
	distinct := map[string]bool{}
	faults := map[string]int{}
	probes := map[string]int{}
	fams := map[string]int{}
	var events, steps, bubbles, checks int
	var simNs int64
	var samples []interface{}
	hashes := map[string]bool{}
	invalid := 0
	for _, r := range all {
		if r.Invalid {
			invalid++
			continue
		}
		if r.Nontrivial {
			distinct[r.Family+"/"+r.Sig] = true
		}
		hashes[r.LogHash] = true
		for k, v := range r.Faults {
			faults[k] += v
		}
		for k, v := range r.Probes {
			probes[k] += v
		}
		fams[r.Family]++
		events += r.Events
		steps += r.Steps
		bubbles += r.Bubbles
		checks += r.Checks
		simNs += r.SimNs
		if len(r.Program) > 0 && len(samples) < 3 && r.Violation == nil {
			var v interface{}
			json.Unmarshal(r.Program, &v)
			samples = append(samples, v)
		}
	}
	if len(samples) == 0 {
		samples = append(samples, fmt.Sprintf("no sample captured (runs=%d)", len(all)))
	}
	runWall := wall - buildS
	if runWall <= 0 {
		runWall = wall
	}
	cov := map[string]interface{}{
		"evaluations":             len(all) - invalid,
		"distinct_nontrivial":     len(distinct),
		"rule":                    meta.Rule,
		"samples":                 samples,
		"oracle_checks":           checks,
		"witness_replays":         witnessRuns,
		"simulated_runs_per_hour": int(float64(len(all)) / runWall * 3600),
		"seeds_per_hour":          int(float64(len(all)) / runWall * 3600),
		"simulated_time_s":        float64(simNs) / 1e9,
		"bubbles":                 bubbles,
		"store_events":            events,
		"scheduler_steps":         steps,
		"distinct_event_logs":     len(hashes),
		"faults_fired":            faults,
		"probes":                  probes,
		"families":                fams,
		"known_findings_reported": known,
		"real_components":         "all packages of /repo (s3db, sqlite, kv, kv/internal/crdt, kv/crdt, proto/v1, writetime, sql/*), jrhy/mast, golang-lru, protobuf, SQLite amalgamation via mattn/go-sqlite3, riyazali binding, database/sql",
		"stubbed_components":      "object store and everything below kv.S3Interface (AWS SDK pipeline, HTTP, S3) -> in-process bucket with parked requests; clock -> testing/synctest fake clock; version-list shuffle and map orders -> seeded (hooks H2/H3); protobuf map order -> deterministic (H4); a process -> a connection with its own handles",
		"exhaustive":              false,
	}
	return map[string]interface{}{
		"property_id": prop,
		"tier":        tier,
		"seed":        seed,
		"level":       meta.Level,
		"coverage":    cov,
		"assumptions": meta.Assumptions,
		"wall_s":      wall,
		"violations":  violations,
	}
}

func raceSummary(stderr string) string {
	i := strings.Index(stderr, "WARNING: DATA RACE")
	if i < 0 {
		return tailLines(stderr, 25)
	}
	lines := strings.Split(stderr[i:], "\n")
	if len(lines) > 40 {
		lines = lines[:40]
	}
	return strings.Join(lines, "\n")
}
