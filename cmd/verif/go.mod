module verif/cmd/verif

go 1.23
